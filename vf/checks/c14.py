"""C14 — hash, math and string module functions compute their definitions.

Proof (Thm/C14.lean, re-checked every run) + correspondence: the real module functions are called through
compiled rules on generated memory-block layouts / strings (harness/h_mod.c) and compared with the
specification values printed by the compiled Lean driver (Driver/Mod.lean); digests are recomputed with
hashlib, crc32 additionally with zlib."""
import hashlib, zlib, struct, itertools, json, os, subprocess
from fractions import Fraction
from vf import core

THM = ["YaraModel.Thm.C14"]
MANIFEST = dict(
    technique="Lean 4 proof about an executable model of the block walker, CRC table, digest cache, histogram statistics and strtoll "
              "+ translator T6 (crc32_tab regenerated from hash.c) + exhaustive small-buffer correspondence against the real modules",
    text="proof: Thm/C14.lean (35 theorems, re-checked every run) proves for ALL block lists / byte strings / offsets / lengths / call "
         "sequences, about a model that follows the code after the fixes 3e6ded9/5e43bd9/d04bbf9/3070536: the range walker shared by hash.c "
         "and math.c returns exactly buf[off, min(off+len,size)) on one block and undefined outside it (rangeWalk_single) and equals the "
         "memory-map specification on EVERY ascending layout of non-empty blocks for every offset and length, zero-length ranges at inner "
         "block boundaries included (rangeWalk_eq_addressedMem; rangeWalk_contig, rangeWalk_gap, rangeWalk_skip, "
         "rangeWalk_boundary_zero_length); the 64-bit break test `base+size >= (uint64)off + (uint64)len` has no wrap for non-negative int64 "
         "operands and block ends < 2^63 (breakTest_no_wrap); every entry of crc32_tab (regenerated from hash.c by translator T6) equals the "
         "bitwise reflected CRC-32 (0xEDB88320) of its index and the table-driven loops equal the bitwise definition (crc32_table, crc32_fold, "
         "crc32_data); checksum32 = sum mod 2^32; the digest cache is transparent for every call sequence (cache_transparent); histogram "
         "mean/deviation/count/percentage/mode, serial correlation and Monte-Carlo pi equal their definitions over the addressed bytes for "
         "every block list (serial_correlation_data, monte_carlo_data); the string statistics equal the definitions; abs is undefined exactly "
         "for INT64_MIN. The pre-fix walker / per-block statistics / signed char are frozen regression definitions with kernel-checked "
         "witnesses of the difference. SAMPLED only (correspondence): the digest primitives (OpenSSL vs hashlib), IEEE evaluation (tolerance "
         "1e-9 rel / 1e-12 abs; math.percentage is single precision: 2^-22; entropy via Lean Float), strtoll (model of the glibc grammar; "
         "proved: result in int64, base guard), to_string, min/max (proved = min/max on non-negative arguments), argument passing through "
         "compiler and VM, independence of a call's result from the calls made before it in the scan / process (order and carried-state families).",
    design_ref="DESIGN.md §5 C14, translator T6 (§2.2)",
    note=core.TB + "Digest primitives are parameters of the model. offset+length >= 2^63 and math.abs(INT64_MIN) (formerly undefined "
                   "behaviour in C) are exercised one call per process so that a sanitizer abort names its case. Unreadable blocks (fetch_data == NULL) are outside the model.")

I64MAX = 2 ** 63 - 1
I64MIN = -2 ** 63
RANGE_FNS = ["md5", "sha1", "sha256", "crc32", "ck32", "mean", "dev", "ent", "sc", "mc", "cnt", "pct", "mode"]
DIGESTS = ["md5", "sha1", "sha256"]
STR_FNS = ["md5s", "sha1s", "sha256s", "crc32s", "ck32s", "means", "devs", "ents", "scs", "mcs", "len", "toint"]
FLOAT32_FNS = {"pct", "pctg"}
CALLS_PER_LINE = 48


def hx(b):
    return b.hex() if b else "-"


def blocks_tok(blocks):
    return ",".join("%d:%s" % (base, hx(data)) for base, data in blocks) if blocks else "none"


# ------------------------------------------------------------------ generators

def rand_bytes(r, n):
    mode = r.randrange(5)
    if mode == 0:
        return bytes(r.randrange(256) for _ in range(n))
    if mode == 1:
        return bytes(r.choice([0, 1, 0x7f, 0x80, 0xff, 0x61]) for _ in range(n))
    if mode == 2:
        return bytes([r.randrange(256)]) * n
    if mode == 3:
        return bytes(r.choice([0x80, 0xfe, 0xff, 0xc3]) for _ in range(n))
    return bytes((i * 37 + r.randrange(3)) & 0xff for i in range(n))


def range_call(r, fn, off, ln, data):
    if fn == "dev":
        m = r.choice([0, 1020, 2040, 8 * (data[0] if data else 5), r.randrange(0, 2048), -r.randrange(1, 64), 4 * r.randrange(0, 512) + 1])
        return "dev:%d:%d:%d" % (off, ln, m)
    if fn in ("cnt", "pct"):
        b = r.choice(([data[r.randrange(len(data))]] * 4 if data else []) + [0, 255, 256, -1, r.randrange(256)])
        return "%s:%d:%d:%d" % (fn, b, off, ln)
    return "%s:%d:%d" % (fn, off, ln)


def span_args(lo, hi, total):
    offs = list(range(max(lo - 2, -2), hi + 3)) + [-3, 2 ** 31, 2 ** 32 + 1, I64MAX, I64MIN]
    lens = list(range(-1, total + 3)) + [2 ** 31, 2 ** 32, I64MAX, I64MIN, -7]
    return sorted(set(offs)), sorted(set(lens))


def pairs_for(blocks):
    lo = blocks[0][0] if blocks else 0
    hi = (blocks[-1][0] + len(blocks[-1][1])) if blocks else 0
    offs, lens = span_args(lo, hi, hi - lo)
    safe, ub = [], []
    for o in offs:
        for l in lens:
            if o >= 0 and l >= 0 and o + l > I64MAX:
                # offset+length overflows int64 (UB at `offset + length` in the walkers) unless the call returns before
                ub.append((o, l))
                # the largest length that does not overflow is still exercised in the safe set
                safe.append((o, I64MAX - o))
            else:
                safe.append((o, l))
    return sorted(set(safe)), sorted(set(ub))


def lines_from_calls(prefix, blocks, calls, out, meta, family):
    bt = blocks_tok(blocks)
    for i in range(0, len(calls), CALLS_PER_LINE):
        cid = "%s%d" % (prefix, len(out))
        out.append("%s %s %s" % (cid, bt, " ".join(calls[i:i + CALLS_PER_LINE])))
        meta[cid] = family


def gen_exhaustive(r, tier, out, meta, ubcases):
    sizes = [0, 1, 2, 3, 5, 8, 16, 24] if tier == "quick" else list(range(0, 25))
    rot = 0
    for n in sizes:
        data = rand_bytes(r, n)
        blocks = [(0, data)]
        safe, ub = pairs_for(blocks)
        calls = []
        for (o, l) in safe:
            if tier == "quick":
                others = [f for f in RANGE_FNS if f not in DIGESTS and f != "crc32"]
                fns = ["crc32", DIGESTS[rot % 3], others[rot % len(others)], others[(rot * 7 + 3) % len(others)]]
                rot += 1
            else:
                fns = RANGE_FNS
            for f in fns:
                calls.append(range_call(r, f, o, l, data))
        lines_from_calls("ex", blocks, calls, out, meta, "exhaustive-single")
        for (o, l) in ub[:: (7 if tier == "quick" else 2)]:
            ubcases.append((blocks, o, l))


def rand_layout(r):
    k = r.choice([2, 2, 3, 3, 4])
    base = r.choice([0, 0, 0, 0, 3, 16])
    blocks = []
    for i in range(k):
        size = r.choice([1, 2, 3, 5, 6, 7, 8, 12]) if r.random() < 0.96 else 0
        blocks.append((base, rand_bytes(r, size)))
        base += size
        if r.random() < 0.3:
            base += r.choice([1, 2, 8])
    return blocks


def gen_multiblock(r, tier, out, meta, ubcases):
    fixed = [
        [(0, b"abc"), (3, b"def")],
        [(0, b"abcdef"), (6, b"\x80\xff\x00\x01\x02\x03"), (12, b"zzzzzz")],
        [(0, b"abc"), (4, b"def")],
        [(0, b"abc"), (3, b""), (3, b"def")],
        [(0, b""), (0, b"abc")],
        [(2, b"abc"), (5, b"de")],
        [(0, b"ab"), (2, b"cd"), (4, b"ef"), (6, b"gh")],
        [(0, b"ab"), (2, b"cd"), (5, b"ef"), (7, b"gh")],
    ]
    nrand = 24 if tier == "quick" else 400
    layouts = fixed + [rand_layout(r) for _ in range(nrand)]
    rot = 0
    for blocks in layouts:
        safe, ub = pairs_for(blocks)
        alldata = b"".join(d for _, d in blocks)
        calls = []
        for (o, l) in safe:
            if tier == "quick":
                fns = ["crc32", RANGE_FNS[rot % len(RANGE_FNS)], ["sc", "mc", "mean", "ck32"][rot % 4]]
                rot += 1
            else:
                fns = RANGE_FNS
            for f in fns:
                calls.append(range_call(r, f, o, l, alldata))
        for b in [0, 255, 256, -1] + list(alldata[:3]):
            calls += ["cntg:%d" % b, "pctg:%d" % b]
        calls.append("modeg")
        lines_from_calls("mb", blocks, calls, out, meta, "multi-block")
        for (o, l) in ub[:: (40 if tier == "quick" else 8)]:
            ubcases.append((blocks, o, l))
    # no block at all
    lines_from_calls("mb", [], ["md5:0:0", "crc32:0:1", "ck32:0:0", "mean:0:1", "sc:0:1", "mc:0:6", "ent:0:0", "modeg", "cntg:0", "pctg:0",
                               "mode:0:0", "sha1:0:1", "sha256:0:1", "cnt:0:0:1", "pct:0:0:1", "dev:0:1:8"], out, meta, "multi-block")


def gen_cache(r, tier, out, meta):
    data = rand_bytes(r, 12)
    layouts = [[(0, data)], [(0, data[:5]), (5, data[5:])], [(0, data[:5]), (6, data[5:])]]
    keysets = [
        [(0, 5), (5, 0)], [(0, 5), (0, 6)], [(1, 4), (0, 5)], [(0, 12), (0, 13)], [(2, 3), (3, 2)], [(0, 0), (11, 1)],
        [(1, 256), (256, 1)], [(0, 5), (12, 0)], [(3, 100), (3, 9)], [(4, 4), (5, 3)],
    ]
    # every sequence of 3 calls over (3 algorithms x 2 keys): all call orders within a small rule set
    for ks in keysets[: (4 if tier == "quick" else len(keysets))]:
        alphabet = [(a, k) for a in DIGESTS for k in ks]
        for blocks in layouts[: (2 if tier == "quick" else 3)]:
            calls_lines = []
            for seq in itertools.product(alphabet, repeat=3):
                calls_lines.append(["%s:%d:%d" % (a, o, l) for a, (o, l) in seq])
            for cl in calls_lines:
                cid = "ca%d" % len(out)
                out.append("%s %s %s" % (cid, blocks_tok(blocks), " ".join(cl)))
                meta[cid] = "cache-orders"
    # long random histories with many distinct keys (bucket chains of the 17-bucket table get long)
    nlong = 60 if tier == "quick" else 3000
    for _ in range(nlong):
        blocks = r.choice(layouts)
        nk = r.choice([2, 3, 5, 9, 20])
        keys = [(r.choice([0, 0, 1, 2, 5, 11, 12, 13, -1, 256]), r.choice([0, 1, 2, 5, 6, 7, 12, 13, 100, -1, 256])) for _ in range(nk)]
        keys += [(l, o) for (o, l) in keys[:2]]
        calls = []
        for _ in range(r.choice([6, 12, 30, 48])):
            o, l = r.choice(keys)
            u = r.random()
            if u < 0.8:
                calls.append("%s:%d:%d" % (r.choice(DIGESTS), o, l))
            elif u < 0.9:
                calls.append("%s:%d:%d" % (r.choice(["crc32", "ck32"]), o, l))
            else:
                calls.append("%ss:%s" % (r.choice(DIGESTS), hx(data[:r.randrange(4)])))
        cid = "ca%d" % len(out)
        out.append("%s %s %s" % (cid, blocks_tok(blocks), " ".join(calls)))
        meta[cid] = "cache-history"


def str_calls(r, s):
    calls = []
    for f in STR_FNS:
        calls.append("%s:%s" % (f, hx(s)))
    m = r.choice([0, 1020, 2040, -8, 8 * (s[0] if s else 1), r.randrange(2048)])
    calls[STR_FNS.index("devs")] = "devs:%s:%d" % (hx(s), m)
    return calls


def gen_strings(r, tier, out, meta):
    alpha = [0x00, 0x01, 0x7f, 0x80, 0xff, 0x61]
    strs = [b""]
    maxlen = 3 if tier == "quick" else 4
    for n in range(1, maxlen + 1):
        for t in itertools.product(alpha, repeat=n):
            strs.append(bytes(t))
    nrand = 200 if tier == "quick" else 12000
    for _ in range(nrand):
        strs.append(rand_bytes(r, r.choice([4, 5, 6, 6, 7, 11, 12, 13, 18, 24, 40])))
    # monte carlo: groups around the circle boundary, high bytes in every position
    for pos in range(6):
        for v in (0x7f, 0x80, 0xff, 0xb5):
            g = bytearray(6)
            g[pos] = v
            strs.append(bytes(g))
            strs.append(bytes(g) + bytes([0xb4, 0xff, 0xff, 0xb4, 0xff, 0xff]))
    strs += mc_boundary_groups()
    calls = []
    for s in strs:
        calls += str_calls(r, s)
    lines_from_calls("st", [(0, b"x")], calls, out, meta, "string-args")
    # the same boundary groups through the range form
    for g in mc_boundary_groups():
        lines_from_calls("st", [(0, g)], ["mc:0:%d" % len(g), "mc:0:6", "sc:0:%d" % len(g), "mean:0:6"], out, meta, "mc-boundary")


def mc_boundary_groups():
    """6-byte groups (x, y as 24-bit big-endian) on and next to the circle x^2 + y^2 = (2^24 - 1)^2."""
    import math
    R = 2 ** 24 - 1
    gs = []
    for x in (R, R - 1, 0, 1, 11863283, 11863282, 0x800000, 0x7fffff, 14529495, 3 * 2 ** 22):
        y0 = math.isqrt(R * R - x * x)
        for y in (y0 - 1, y0, y0 + 1, y0 + 2):
            if 0 <= y <= R:
                gs.append(x.to_bytes(3, "big") + y.to_bytes(3, "big"))
                gs.append(y.to_bytes(3, "big") + x.to_bytes(3, "big"))
    out = []
    for i in range(0, len(gs), 2):
        out.append(gs[i])
        out.append(gs[i] + gs[i + 1])
    return out


def to_digits(v, base):
    ds = "0123456789abcdefghijklmnopqrstuvwxyz"
    if v == 0:
        return "0"
    s = ""
    while v:
        s = ds[v % base] + s
        v //= base
    return s


def gen_toint(r, tier, out, meta):
    cases = []
    n = 800 if tier == "quick" else 40000
    specials = [0, 1, 7, 8, 9, 10, 15, 16, 31, 35, 36, 255, 2 ** 31, 2 ** 32, 2 ** 63 - 1, 2 ** 63, 2 ** 63 + 1, 2 ** 64, 2 ** 64 + 5, 10 ** 30]
    for _ in range(n):
        base = r.choice([0, 0, 0, 10, 16, 8, 2, 36, 3, 1, 37, -1, -10, 2 ** 32 + 10, 35])
        dbase = base if 2 <= base <= 36 else r.choice([10, 16, 8])
        v = r.choice(specials) if r.random() < 0.5 else r.randrange(0, 10 ** r.randrange(1, 21))
        body = to_digits(v, dbase)
        if r.random() < 0.3:
            body = body.upper()
        prefix = ""
        u = r.random()
        if dbase == 16 and u < 0.6:
            prefix = r.choice(["0x", "0X"])
        elif dbase == 8 and u < 0.6:
            prefix = "0"
        elif u > 0.93:
            prefix = r.choice(["0x", "0", "00", "0X"])
        s = r.choice(["", "", "", " ", "\t \n", "\x0b\x0c\r", "  "]) + r.choice(["", "", "-", "+", "-", "--", "+-"]) + prefix + body
        u = r.random()
        if u < 0.12:
            s += r.choice([" ", "x", "g", "8", "9", "z", ".", "\x80", "L", "-", "_"])
        elif u < 0.18:
            s += "\x00" + r.choice(["", "12", "zz"])
        elif u < 0.22:
            s = s[: r.randrange(len(s) + 1)]
        elif u < 0.25:
            s = r.choice(["", " ", "-", "+", "0x", "0X", "x", "-0x", " 0x", "0xg", "0x-1", "- 1", "\xa0" + "1", "\x00", "0", "-0", "+0", "00", "0 ", "08", "0o7"])
        # the C23 binary prefix is libc-version dependent: keep it out of bases 0 and 2
        t = s.lstrip(" \t\n\x0b\x0c\r").lstrip("+-").lower()
        if t.startswith("0b") and base in (0, 2):
            continue
        b = s.encode("latin-1")
        if r.random() < 0.5:
            cases.append("toint:%s" % hx(b) if base == 0 else "tointb:%s:%d" % (hx(b), base))
        else:
            cases.append("tointb:%s:%d" % (hx(b), base))
    for v in (I64MAX, I64MAX + 1, -I64MIN, -I64MIN + 1):
        for base in (2, 8, 10, 16, 36):
            for sign in ("", "-", "+"):
                cases.append("tointb:%s:%d" % (hx((sign + to_digits(v, base)).encode()), base))
    lines_from_calls("ti", [(0, b"x")], cases, out, meta, "string.to_int")


def gen_scalars(r, tier, out, meta):
    ints = [0, 1, -1, 2, -2, 7, 8, 10, 16, 255, 256, -255, 2 ** 31 - 1, 2 ** 31, -2 ** 31, 2 ** 32, 2 ** 32 - 1, I64MAX, I64MAX - 1,
            I64MIN + 1, I64MIN, -10 ** 18, 10 ** 18, 1234567890123]
    calls = []
    for a in ints:
        for b in ints:
            calls.append("min:%d:%d" % (a, b))
            calls.append("max:%d:%d" % (a, b))
        if a != I64MIN:
            calls.append("abs:%d" % a)
        calls.append("tostr:%d" % a)
        for base in (10, 8, 16, 2, 0, 1, -16, 36, 9, 17, 2 ** 32 + 16, I64MIN, I64MAX):
            calls.append("tostrb:%d:%d" % (a, base))
    calls += ["tonum:0", "tonum:1"]
    fl = [0, 1, -1, 8, -8, 4, 12, 1020, 2040, 2041, -2040, 10 ** 6, -10 ** 6, 3, -3]
    for t in fl:
        for lo in fl[:9]:
            for hi in fl[:9]:
                calls.append("inr:%d:%d:%d" % (t, lo, hi))
    nrand = 150 if tier == "quick" else 10000
    for _ in range(nrand):
        a = r.choice([r.randrange(I64MIN + 1, I64MAX), r.randrange(-1000, 1000)])
        b = r.choice([r.randrange(I64MIN + 1, I64MAX), r.randrange(-1000, 1000), a, -a])
        calls += ["min:%d:%d" % (a, b), "max:%d:%d" % (a, b), "abs:%d" % a, "tostr:%d" % a, "tostrb:%d:%d" % (a, r.choice([8, 10, 16]))]
    lines_from_calls("sc", [(0, b"x")], calls, out, meta, "scalars")


def consumed(blocks, o, l):
    """bytes the walker consumes for (o, l) on an ascending layout (None if undefined) — generator helper only"""
    if not blocks or o < 0 or l < 0 or o < blocks[0][0]:
        return None
    n, started = 0, False
    for base, data in blocks:
        if base <= o + n < base + len(data):
            take = min(l - n, base + len(data) - (o + n))
            n += take
            started = True
            if o + n >= o + l:
                break
        elif started:
            return None if n < l else n
    return n if started else None


def one_per_line(prefix, blocks, seqs, out, meta, family):
    bt = blocks_tok(blocks)
    for cl in seqs:
        cid = "%s%d" % (prefix, len(out))
        out.append("%s %s %s" % (cid, bt, " ".join(cl)))
        meta[cid] = family


def gen_order(r, tier, out, meta):
    """Call ORDER inside one scan must not matter (digest cache keys, any state shared between the walkers).
    Key groups contain, next to a key (o, l): the key the walker ends at, (o+consumed, l-consumed) — a digest stored under
    the advanced working copies would be found there —, the swapped key, the same offset with another length, the clipped
    twin (same bytes, longer length)."""
    data = rand_bytes(r, 12)
    layouts = [[(0, data)], [(0, data[:5]), (5, data[5:])], [(0, data[:5]), (7, data[5:])], [(4, data[:3]), (7, data[3:])]]
    base_keys = [(0, 3), (0, 5), (2, 3), (5, 7), (3, 100), (0, 12), (11, 1), (5, 0), (0, 0), (6, 2), (4, 9)]
    if tier == "quick":
        layouts, base_keys = layouts[:3], base_keys[:7]
    for blocks in layouts:
        for (o, l) in base_keys:
            c = consumed(blocks, o, l)
            group = [(o, l), (l, o), (o, l + 1)]
            if c is not None:
                group += [(o + c, l - c), (o, c), (o + c, 0)]
            group = list(dict.fromkeys(group))[:5]
            calls = ["%s:%d:%d" % (a, ko, kl) for a in DIGESTS for (ko, kl) in group]
            seqs = []
            # every ordered pair of (algorithm, key) calls, asked twice: A B A B
            for A in calls:
                for B in calls:
                    if A != B:
                        seqs.append([A, B, A, B])
            one_per_line("or", blocks, seqs, out, meta, "order-pairs")
        # all permutations of 4 distinct calls
        for _ in range(2 if tier == "quick" else 12):
            ks = r.sample(base_keys, 2)
            four = ["md5:%d:%d" % ks[0], "md5:%d:%d" % ks[1], "sha1:%d:%d" % ks[0], "sha256:%d:%d" % ks[1]]
            one_per_line("or", blocks, [list(pm) for pm in itertools.permutations(four)], out, meta, "order-permutations")
        # every walker on one key, forwards and backwards, digests repeated in between
        for (o, l) in base_keys:
            seq = []
            for f in ["crc32", "md5", "ck32", "sha1", "mean", "sha256", "ent", "md5", "sc", "sha1", "mc", "sha256", "mode", "md5", "dev", "cnt", "pct"]:
                seq.append(range_call(r, f, o, l, data))
            one_per_line("or", blocks, [seq, seq[::-1], seq + seq[::-1]], out, meta, "order-all-walkers")


POISON_INT = ["9223372036854775808", "-9223372036854775809", "99999999999999999999999999999999", "0x8000000000000000", "-0xffffffffffffffffff",
              "", " ", "-", "0x", "12z", "1 ", "\x00" + "5", "077777777777777777777777"]
NORMAL_INT = ["0", "1", "-1", "42", "  7", "0x10", "-0x7fffffffffffffff", "9223372036854775807", "-9223372036854775808", "010", "+5"]


def gen_state(r, tier, out, meta):
    """The result of a call must not depend on what an EARLIER call left behind (errno after an overflowing strtoll,
    counters, a half-filled group buffer, a cached undefined …): poison/normal sequences inside one scan, and whole scans
    of poison calls followed by whole scans of normal calls inside one harness process."""
    def ti(sx, base=None):
        b = sx.encode("latin-1")
        return "toint:%s" % hx(b) if base is None else "tointb:%s:%d" % (hx(b), base)
    one = [(0, b"x")]
    seqs = []
    for P in POISON_INT:
        for N in r.sample(NORMAL_INT, 3 if tier == "quick" else len(NORMAL_INT)):
            seqs += [[ti(P), ti(N)], [ti(N), ti(P), ti(N)], [ti(P), ti(P, 10), ti(N, 0), ti(N)], [ti(P, 16), ti(N, 16)],
                     [ti(N, 37), ti(N, 10)], [ti(P), "md5s:61", ti(N)], [ti(P), "ents:6162", "mcs:000000000000", ti(N)]]
    one_per_line("cs", one, seqs, out, meta, "carried-state-to_int")
    # a normal to_int after every other kind of call
    data = rand_bytes(r, 13)
    blocks = [(0, data)]
    others = []
    for f in RANGE_FNS:
        others += [range_call(r, f, 0, 13, data), range_call(r, f, 13, 1, data), range_call(r, f, -1, 2, data), range_call(r, f, 2, I64MAX - 2, data)]
    others += str_calls(r, b"\xff\x00\x80abc") + str_calls(r, b"")
    others += ["min:-1:1", "max:-1:1", "abs:-5", "abs:%d" % I64MIN, "tostr:-1", "tostrb:5:7", "tostrb:-1:16", "tonum:1", "inr:1:0:2",
               "cntg:97", "pctg:0", "modeg", "cnt:256:0:1", "pct:-1:0:1"]
    seq = []
    for c in others:
        seq += [c, ti(r.choice(NORMAL_INT)), ti(r.choice(NORMAL_INT), r.choice([0, 10, 16]))]
    lines_from_calls("cs", blocks, seq, out, meta, "carried-state-after-any-call")
    # poison then normal for every range function (undefined first, then defined, twice) on several layouts
    layouts = [blocks, [(0, data[:6]), (6, data[6:])], [(0, data[:6]), (8, data[6:])], [(3, data)]]
    for bl in layouts:
        lo = bl[0][0]
        end = bl[-1][0] + len(bl[-1][1])
        seq = []
        for f in RANGE_FNS:
            poison = [(-1, 3), (lo, -1), (end, 0), (end + 5, 2), (lo + 2, 9) if len(bl) > 1 else (end, 1), (lo, 3)]
            normal = [(lo, 6), (lo + 1, 5), (lo, end - lo), (lo + 1, 6)]
            for (po, pl) in poison:
                no, nl = r.choice(normal)
                seq += [range_call(r, f, po, pl, data), range_call(r, f, no, nl, data)]
        lines_from_calls("cs", bl, seq, out, meta, "carried-state-range-functions")
    # across scans in one process: 16 lines of poison calls, then 16 lines of normal calls (the harness processes of
    # run_parallel take every 16th line), repeated
    reps = 2 if tier == "quick" else 8
    for _ in range(reps):
        for _ in range(16):
            one_per_line("cs", one, [[ti(r.choice(POISON_INT)) for _ in range(3)] + ["mcs:0102030405", "md5:5:1", "abs:%d" % (I64MIN + 1)]], out, meta,
                         "carried-state-across-scans")
        for _ in range(16):
            one_per_line("cs", one, [[ti(r.choice(NORMAL_INT)) for _ in range(3)] + ["mcs:000000000000", "md5:0:1", "abs:-3", ti("z", 36)]], out, meta,
                         "carried-state-across-scans")


def gen_clipped(r, tier, out, meta):
    """Ranges that start inside the last contiguous run and are clipped by the end of the last block: every range
    function on every such range (the clipped length, not the requested one, is what the statistics divide by)."""
    layouts = []
    for n in ([1, 6, 7, 13, 24] if tier == "quick" else [1, 2, 5, 6, 7, 11, 12, 13, 18, 23, 24]):
        layouts.append([(0, rand_bytes(r, n))])
    d = rand_bytes(r, 14)
    layouts += [[(0, d[:6]), (6, d[6:])], [(0, d[:4]), (4, d[4:9]), (9, d[9:])], [(0, d[:5]), (9, d[5:])], [(2, d[:7]), (9, d[7:])]]
    for blocks in layouts:
        end = blocks[-1][0] + len(blocks[-1][1])
        # start of the last contiguous run
        run = blocks[-1][0]
        for i in range(len(blocks) - 1, 0, -1):
            if blocks[i - 1][0] + len(blocks[i - 1][1]) == blocks[i][0]:
                run = blocks[i - 1][0]
            else:
                break
        alldata = b"".join(x for _, x in blocks)
        calls = []
        offs = sorted(set([run, run + 1, max(run, end - 7), max(run, end - 6), max(run, end - 2), end - 1]))
        for o in offs:
            rem = end - o
            for l in sorted(set([max(rem - 1, 0), rem, rem + 1, rem + 2, rem + 6, rem + 255, 2 ** 31, 2 ** 32 + 1, I64MAX - o])):
                for f in RANGE_FNS:
                    calls.append(range_call(r, f, o, l, alldata))
        lines_from_calls("cl", blocks, calls, out, meta, "clipped-at-last-block")


def generate(tier):
    r = core.rng("C14")
    out, meta, ub = [], {}, []
    gen_exhaustive(r, tier, out, meta, ub)
    gen_multiblock(r, tier, out, meta, ub)
    gen_cache(r, tier, out, meta)
    gen_strings(r, tier, out, meta)
    gen_toint(r, tier, out, meta)
    gen_scalars(r, tier, out, meta)
    gen_order(r, tier, out, meta)
    gen_state(r, tier, out, meta)
    gen_clipped(r, tier, out, meta)
    # undefined-behaviour class: one process per case (a sanitizer abort must not take other cases with it)
    ublines = []
    walkers = ["md5", "sha1", "sha256", "crc32", "ck32", "mean", "sc", "mc"]
    for i, (blocks, o, l) in enumerate(ub):
        f = walkers[i % len(walkers)]
        ublines.append("ub%d %s %s:%d:%d" % (i, blocks_tok(blocks), f, o, l))
    ublines.append("ub%d %s abs:%d" % (len(ublines), blocks_tok([(0, b"x")]), I64MIN))
    return out, meta, ublines


# ------------------------------------------------------------------ comparison

def parse_float_tok(tok):
    if tok.startswith("Q"):
        n, d = tok[1:].split("/")
        return Fraction(int(n), int(d))
    if tok.startswith("E"):
        return Fraction(struct.unpack("<d", struct.pack("<Q", int(tok[1:])))[0])
    return None


def tok_equal(fn, impl, want):
    """impl: harness token; want: one driver alternative."""
    if want == "U":
        return impl == "U"
    if want[0] in "IS":
        return impl == want
    if want[0] == "D":
        alg, h = want[1:].split(":")
        data = bytes.fromhex(h) if h != "-" else b""
        return impl == "S" + hashlib.new(alg, data).hexdigest().encode().hex()
    if want[0] in "QE":
        if not impl.startswith("F"):
            return False
        try:
            got = Fraction(float(impl[1:]))
        except (ValueError, OverflowError):
            return False
        exp = parse_float_tok(want)
        rel = Fraction(1, 2 ** 22) if fn in FLOAT32_FNS else Fraction(1, 10 ** 9)
        return abs(got - exp) <= max(Fraction(1, 10 ** 12), rel * abs(exp))
    return False


def parse_blocks(btok):
    if btok == "none":
        return []
    return [(int(x.split(":")[0]), 0 if x.split(":")[1] == "-" else len(x.split(":")[1]) // 2) for x in btok.split(",")]


def classify(fn, btok, call, impl, model):
    """-> ('ok'|'bad', kind).  The implementation must return the specification value; the code-following model must agree
    with the specification as well (the driver prints `<spec>~<model>` only when they differ) — otherwise the theorems
    would speak about something that is not the code."""
    alts = model.split("~")
    if not tok_equal(fn, impl, alts[0]):
        if len(alts) == 2 and tok_equal(fn, impl, alts[1]):
            return "bad", "implementation-and-code-model-agree-but-differ-from-spec"
        return "bad", "implementation-differs-from-spec"
    if len(alts) == 2:
        return "bad", "code-following-model-differs-from-spec-and-implementation(stale model)"
    return "ok", None


def py_reference(blocks_tok_s, call):
    """Independent (no Lean) reference for crc32 / checksum32 / digests on single-block layouts and strings."""
    p = call.split(":")
    fn = p[0]
    if fn in ("crc32s", "ck32s"):
        s = bytes.fromhex(p[1]) if p[1] != "-" else b""
        return "I%d" % (zlib.crc32(s) if fn == "crc32s" else sum(s) % 2 ** 32)
    if fn in ("crc32", "ck32", "md5", "sha1", "sha256") and "," not in blocks_tok_s and blocks_tok_s != "none":
        base, h = blocks_tok_s.split(":")
        base = int(base)
        data = bytes.fromhex(h) if h != "-" else b""
        o, l = int(p[1]), int(p[2])
        if l < 0 or o < base or o >= base + len(data):
            return "U"
        s = data[o - base: o - base + l]
        if fn == "crc32":
            return "I%d" % zlib.crc32(s)
        if fn == "ck32":
            return "I%d" % (sum(s) % 2 ** 32)
        return "D%s:%s" % (fn, hx(s))
    return None


def branch_class(blocks_tok_s, call):
    p = call.split(":")
    if p[0] not in RANGE_FNS:
        return p[0]
    try:
        o, l = (int(p[1]), int(p[2])) if p[0] not in ("cnt", "pct") else (int(p[2]), int(p[3]))
    except ValueError:
        return "?"
    if blocks_tok_s == "none":
        return "no-block"
    bl = [(int(b.split(":")[0]), (len(b.split(":")[1]) // 2 if b.split(":")[1] != "-" else 0)) for b in blocks_tok_s.split(",")]
    if o < 0:
        return "neg-offset"
    if l < 0:
        return "neg-length"
    if o < bl[0][0]:
        return "before-first-block"
    end = bl[-1][0] + bl[-1][1]
    if o == end:
        return "offset==end"
    if o > end:
        return "offset>end"
    if l == 0:
        return "zero-length"
    inblk = [i for i, (b, s) in enumerate(bl) if b <= o < b + s]
    if not inblk:
        return "offset-in-gap"
    i = inblk[0]
    if o + l <= bl[i][0] + bl[i][1]:
        return "inside-one-block" + ("-touching-end" if o + l == end else "")
    if len(bl) == 1:
        return "clipped-at-end"
    return "crosses-blocks"


def run(tier, replay=None):
    chk = core.Check("C14", tier)
    for f in os.listdir(os.path.join(core.OUT, "C14")):
        if f.startswith(("diff_", "harness_crash", "proof_broken")):
            os.remove(os.path.join(core.OUT, "C14", f))
    lres = core.lean_check(THM, translators=["crc32tab"])
    tr = lres.get("translators")
    core.proof_coverage(chk, lres, THM, translators=tr)
    b = core.build("asan", harness=["h_mod"])
    lines, meta, ublines = generate(tier)
    if replay:
        if replay.get("ub"):
            lines, ublines = [], [replay["case"]]
        else:
            lines, ublines = [replay["case"]], []
        meta = {}
    found = False
    nviol = 0
    hist_fn, hist_branch, hist_res, hist_family = {}, {}, {}, {}
    samples = []
    evaluations = 0
    nontrivial = set()
    model_ref_checked = 0

    impl, rc, err = core.run_parallel([b["h_mod"]], lines) if lines else ([], 0, "")
    if rc != 0:
        chk.violation("harness_crash.json", {"kind": "harness-crash-or-sanitizer", "rc": rc, "stderr": err, "engine": "mod",
                                              "harness": "h_mod", "note": "bisect with ./check C14 --replay on single lines of out/C14/cases.txt"})
        found = True
        # find the first crashing line so that the replay is concrete
        for l in lines:
            o1, rc1, e1 = core.run_lines([b["h_mod"]], [l])
            if rc1 != 0:
                chk.violation("harness_crash_case.json", {"kind": "harness-crash-or-sanitizer", "rc": rc1, "stderr": e1, "engine": "mod",
                                                           "harness": "h_mod", "case": l})
                break
    open(os.path.join(core.OUT, "C14", "cases.txt"), "w").write("\n".join(lines + ublines) + "\n")

    def compare(case, iline, mline, ub=False):
        nonlocal found, nviol, evaluations, model_ref_checked
        ctoks = case.split()
        cid, btok, calls = ctoks[0], ctoks[1], ctoks[2:]
        it = (iline or "").split()[1:]
        mt = (mline or "").split()[1:]
        if len(it) != len(calls) or len(mt) != len(calls):
            nviol += 1
            found = True
            if nviol <= 20:
                chk.violation("diff_%d.json" % nviol, {"kind": "malformed-output", "engine": "mod", "harness": "h_mod", "case": case, "ub": ub,
                                                        "implementation": iline, "model_spec": mline})
            return
        fam = meta.get(cid, "int64-extremes" if ub else "replay")
        sizes = [] if btok == "none" else [0 if x.split(":")[1] == "-" else len(x.split(":")[1]) // 2 for x in btok.split(",")]
        if len(sizes) > 1 and 0 in sizes:
            # a zero-size block next to other blocks is not a buffer region: outside the specification.
            # The calls were executed (sanitizers, consistency of the observation) but values are not compared.
            hist_family["zero-size-block-layout(run, values not compared)"] = hist_family.get("zero-size-block-layout(run, values not compared)", 0) + len(calls)
            for k in range(len(calls)):
                if it[k].startswith("X"):
                    nviol += 1
                    found = True
                    chk.violation("diff_%d.json" % nviol, {"kind": "inconsistent-observation", "engine": "mod", "harness": "h_mod", "case": case,
                                                            "implementation": iline, "model_spec": mline})
            return
        hist_family[fam] = hist_family.get(fam, 0) + len(calls)
        for k, call in enumerate(calls):
            fn = call.split(":")[0]
            evaluations += 1
            hist_fn[fn] = hist_fn.get(fn, 0) + 1
            bc = branch_class(btok, call)
            hist_branch[bc] = hist_branch.get(bc, 0) + 1
            hist_res["undefined" if it[k] == "U" else "defined"] = hist_res.get("undefined" if it[k] == "U" else "defined", 0) + 1
            if it[k] != "U" and bc not in ("inr", "tonum"):
                nontrivial.add((btok if fn in RANGE_FNS or fn.endswith("g") else "", call))
            verdict, tag = classify(fn, btok, call, it[k], mt[k])
            ref = py_reference(btok, call)
            if ref is not None:
                model_ref_checked += 1
                if mt[k].split("~")[0] != ref:
                    verdict, tag = "bad", "lean-spec-value-differs-from-python-reference(zlib/hashlib on the python slice)"
            if len(samples) < 6 and it[k] != "U" and k % 11 == 0:
                samples.append({"blocks": btok, "call": call, "implementation": it[k], "model_spec": mt[k]})
            if verdict == "ok":
                continue
            nviol += 1
            found = True
            if nviol <= 20:
                chk.violation("diff_%d.json" % nviol, {
                    "kind": tag, "engine": "mod", "harness": "h_mod",
                    "case": case, "failing_call": call, "call_index": k, "implementation": it[k], "model_spec": mt[k], "ub": ub,
                    "python_reference": ref,
                    "note": "model_spec is `<spec>` or `<spec>~<code-following model>` (Driver/Mod.lean); digests D<alg>:<bytes> are evaluated with hashlib; "
                            "floats compared with rel 1e-9 / abs 1e-12 (percentage: 2^-22)"})

    if lres.get("driver_ok"):
        model, mrc, merr = core.run_parallel([core.driver_path(), "mod"], lines) if lines else ([], 0, "")
        mi = {l.split(" ", 1)[0]: l for l in impl}
        mm = {l.split(" ", 1)[0]: l for l in model}
        if rc == 0:
            for c in lines:
                cid = c.split(" ", 1)[0]
                compare(c, mi.get(cid), mm.get(cid))
        # ---- int64 extremes (offset+length >= 2^63, abs(INT64_MIN)): one process per case, so that an abort names its case
        ub_stats = {"cases": len(ublines), "aborts": 0, "clean": 0}
        if ublines:
            umodel, _, _ = core.run_lines([core.driver_path(), "mod"], ublines)
            um = {l.split(" ", 1)[0]: l for l in umodel}
            from concurrent.futures import ThreadPoolExecutor
            with ThreadPoolExecutor(16) as ex:
                ures = list(ex.map(lambda l: core.run_lines([b["h_mod"]], [l]), ublines))
            for l, (o1, rc1, e1) in zip(ublines, ures):
                if rc1 != 0:
                    ub_stats["aborts"] += 1
                    evaluations += 1
                    nviol += 1
                    found = True
                    if nviol <= 20:
                        chk.violation("diff_%d.json" % nviol, {"kind": "harness-crash-or-sanitizer", "engine": "mod", "harness": "h_mod", "case": l,
                                                                "ub": True, "rc": rc1, "stderr": e1[-1500:], "model_spec": um.get(l.split(" ", 1)[0])})
                else:
                    ub_stats["clean"] += 1
                    compare(l, o1[0] if o1 else None, um.get(l.split(" ", 1)[0]), ub=True)
        chk.cov["int64_extremes_class"] = ub_stats
    chk.cov.update({
        "evaluations": evaluations, "distinct_nontrivial": len(nontrivial),
        "rule": "one evaluation = one module function call made by a compiled rule during a real scan, compared with the Lean specification value; "
                "non-trivial = the call returned a defined value and is not a constant-only helper (in_range/to_number); distinct by (block layout, call)",
        "case_lines": len(lines), "traces_validated_against_impl": evaluations - nviol,
        "python_reference_cross_checks": model_ref_checked,
        "by_function": dict(sorted(hist_fn.items())), "by_branch": dict(sorted(hist_branch.items())), "by_result": hist_res,
        "by_family": hist_family, "samples": samples,
        "tolerance": "relative 1e-9 / absolute 1e-12; math.percentage (float division in C) relative 2^-22"})
    core.handle_broken_proof(chk, lres, found)
    chk.assumptions += [
        "digest primitives (OpenSSL MD5/SHA-1/SHA-256) are parameters of the model; the comparator recomputes them with Python hashlib",
        "IEEE-754 evaluation is outside the proofs: exact rationals (Lean) vs the C doubles under tolerance; entropy is evaluated with Lean Float",
        "int64 arguments: offset+length >= 2^63 and abs(INT64_MIN) are run one call per process; the value "
        "0xFFFABADAFABADAFF (undefined sentinel, F14) is not generated",
        "strtoll: model of the glibc 2.36 grammar in the C locale; the C23 `0b` prefix (libc-version dependent) is not generated for bases 0 and 2",
        "memory blocks are ascending and readable (fetch_data != NULL), base+size < 2^63",
    ]
    return chk.finish("proof")
