"""C02 — hex-string matches are exactly the documented occurrences.

 (1) Lean: Spec/Re.lean (set-of-end-positions semantics of the RE_NODE_* AST) with `ends_iff_Matches`,
     Thm/C02.lean (split_sem, decompose, vm/fast-matcher soundness on the jump-free..jump fragments, chain bookkeeping);
 (2) spec-level correspondence: generated hex patterns (bytes, ?? / nibble masks, ~ negations, jumps on both sides
     of the 200-byte chaining threshold, nested alternatives) are printed as YARA text, compiled and scanned by the
     real engine (h_scan, complete match list) and evaluated by the compiled Lean spec on the same AST and buffer;
     oracle from the property text (vf/checks/re_common.judge);
 (3) parser tie: the RE_AST the real lexer/grammar built (yr_compiler_set_re_ast_callback, h_re) must equal the
     generator's AST (the one the Lean spec evaluates) up to the documented normalisations;
 (4) translation validation on the REAL bytecode: h_re runs yr_re_fast_exec / yr_re_exec on the compiled forward /
     backward code of every automaton entry, the Lean VM model (Model/ReVm.lean) runs the same bytes.
"""
from vf import core
from vf.checks import re_common as rc
from vf.checks.re_common import hx, INT_MAX

THM = ["YaraModel.Thm.C02", "YaraModel.Thm.C02EndToEnd"]
MANIFEST = dict(
    technique="Lean 4: specification of the regexp AST (sets of end positions, cross-checked against a relational formulation), theorems on jump splitting, atom "
              "decomposition, the chain bookkeeping and the bytecode VM + spec-level correspondence against the real compiler/scanner + AST tie through the re_ast "
              "callback + translation validation (real bytecode run by the C VM and by the Lean VM model; Lean model of _yr_re_emit compared byte for byte)",
    text="proof (partial): Thm/C02.lean proves, for ALL hex patterns and ALL buffers: the specification is self-consistent (ends_iff_Matches) and the driver's evaluator "
         "computes it (driver_evaluates_spec); splitting at a jump is exact (split_sem: pre [n-m] post matches iff pre and post match with a gap in [n,m] - the re-joining rule "
         "of chained strings); verification around atoms loses and invents nothing when one atom is chosen on every way through the pattern (decompose); the chain "
         "bookkeeping of scan.c (model of _yr_scan_verify_chained_string_match) never confirms a wrong pair (chain_sound, any arrival order) and confirms every legal pair of a "
         "two-piece chain under the hypotheses H1-H3 (chain_exact_partial, chain_matches_spec_partial: H1 = a later tail candidate starts at most YR_RE_SCAN_LIMIT + YR_MAX_ATOM_LENGTH "
         "bytes before an earlier one, which the real candidate stream satisfies since fix 81c4ffe widened the pruning window (former finding F13), H2 = one "
         "length per head offset is what finding C02-chain-single-length violates); the bytecode VM model (yr_re_exec) is sound on the code of the emit model for EVERY hex "
         "AST (HexAst: bytes, ??, nibble masks, ~ negations, jumps, alternatives nested to any depth - no fragment restriction; code below the emitter's int16 jump range) "
         "all buffers, start positions and flags, for the forward code (vm_sound) and for the backward code run with RE_FLAGS_BACKWARDS (vm_sound_backward: every reported "
         "length L has L <= start and the pattern matches buf[start-L, start)) - the hex instances of the theorems for all well-formed expressions of Thm/C03. the verification step around an atom is sound for every candidate offset: forward code entered at the atom node's instruction + backward code entered behind it, reporting lf and lb, imply that the whole pattern matches buf[o-lb, o+lf) (verify_from_atom_sound: all hex ASTs, every byte / masked / ?? node, all buffers and offsets - so the soundness of the chain atoms -> automaton -> scan -> verification needs nothing about atoms or the automaton); splitting at the chaining points (Model/ReSplit.lean: every top-level non-greedy jump with n > 200 or m > 200, whatever its width, that has siblings on both sides) preserves the language: the pattern matches iff its pieces match one after the other with every gap inside the jump's bounds (chain_split_sem); the scan of one hex string in one block is sound end to end over the model chain candidates -> verification (forward + exhaustive backward run from the entry's code positions) -> match callback -> match list, for ANY candidate list whose entries point to atom nodes of the pattern or are the zero-length atom (hex_scan_sound, Model/ReScan.lean); the atoms handed to yr_ac_add_string (Model/ReAtoms.lean: walk with the sliding window, trim, OR/AND tree, choice - for EVERY quality function - wildcard expansion, wide / nocase variants, zero-length atom) cover every match: along every match [p,q) of a hex AST one of these byte sequences occurs literally at a position s where the pattern splits into the part before the atom's node (matching [p,s)), the node, and the rest (up to q), and the code positions recorded for the atom are the entry points of verify_from_atom_sound (reAtoms_cover); VM COMPLETENESS for the executable model of yr_re_exec (fiber list, de-duplication, _yr_re_fiber_sync with its executed-split set, per-position pass) on hex code run from its first instruction: for every hex AST in which the first branch of each alternative begins with a byte-like token or a jump that may skip a byte (every AST the hex grammar builds), all buffers and start positions, every match of length <= 1024 at the start position has its length reported by the exhaustive run that ends without an error (hypothesis: the run returns a result = fiber limit and fuel bounds not hit; <= 256 alternatives, byte mode), forward code and, mirrored, backward code (vm_complete_hex, vm_complete_hex_backward; alternatives whose first branch begins with a degenerate jump [0-0] are not covered - the hex grammar cannot build them: hexGrammar_builds_HexG proves, over an inductive description of hex_grammar.y (tokens, `tokens` = token (token | jump)* token, alternatives, pieces of a chained string), that every AST it builds and its mirror image lie in that fragment with nibble masks only, and the run CHECKS it: the decidable shape predicates of Model/ReHexG.lean are evaluated on every piece of the AST the real hex parser built for every generated and corpus string, a string outside the fragment is a violation (coverage hexg_checked / hexg_false; hexG_tie_sound: the decision procedure is sound, and hexG is exactly the fragment). The description forbids two adjacent jumps: hex_grammar.y merges consecutive jumps since the fix F73 of the defect this tie found - a jump with an upper bound >= 65536 directly after a chaining point was truncated to 16 bits - and the generator produces consecutive jumps); the same for the verification runs around an atom - the forward run entered at the atom node's instruction ends with a result >= 0 in any mode (KILL_TAIL only drops fibers after a result is set) and the exhaustive backward run entered behind it reports the length of the part before the node, for every match that runs through the node within the 1024-byte windows (verify_from_atom_complete); and the scan of one hex string in one block is COMPLETE over the model chain atoms -> candidates -> verification -> match callback -> match list: every match of at most 1024 bytes has its offset in the match list, GIVEN the automaton contract as a hypothesis (wherever the bytes of an extracted atom occur literally, the candidate list holds the entry with the atom's code positions) and no verification run ending in an error (hex_scan_complete_partial = reAtoms_cover + verify_from_atom_complete + the match list only grows); END TO END for one non-chained hex string in one block (Thm/C02EndToEnd hex_end_to_end_partial, hex_end_to_end_offsets_partial): the automaton contract is DISCHARGED by the Aho-Corasick theorems (Thm/AcBuild build_sound) - over the model chain atomsOf -> AC.Build.build of these atoms (label = position of the atom in the list, backtrack 0) -> AC.scan of the block -> candsOf (the report of atom i at offset s becomes the candidate with the code positions of the node atom i begins at, equal to fwdRef / bwdRef: candOfAtom_refs; zero-length atom: forward code from its beginning) -> scanHex, for every AST the hex grammar builds, every quality function and buffer: every entry of the match list is a match, every match of at most 1024 bytes has its offset in the list, and when no match in the block exceeds 1024 bytes an offset is reported iff the specification admits it; remaining hypotheses: the automaton was built (build = some, given by build_some up to 32637 atom bytes), fewer than 2^32 atoms, no verification run ends in an error, code < 32000 bytes, <= 256 alternatives, byte mode; _partial: the automaton model's match entries carry a label but no code references (looked up from the atom list; their equality with the real entries is the atoms tie), other strings sharing the automaton, chains, several blocks are outside; NOT proved: VM soundness and completeness for the fast "
         "matcher yr_re_fast_exec, the automaton contract (Aho-Corasick reports every literal occurrence of an atom, masked atoms included), chains of more than two pieces, atom extraction and Aho-Corasick. That gap is covered by SAMPLING on every run: generated patterns x buffers through the real engine vs. the compiled Lean specification "
         "(complete match lists, both directions of the iff), the parser AST tie, the real bytecode through the C VM and the Lean VM model (exact agreement incl. callback "
         "order), the whole-pattern code run exhaustively vs. the specification, the Lean emit model vs. the bytes yr_re_ast_emit_code writes, the Lean model of the chaining split vs. the chain the compiler builds (pieces, gap_min / gap_max), and the Lean model of atoms.c (heuristic quality included) vs. the atoms the compiler inserts into the automaton (hook H3) and the code positions of their entries.",
    design_ref="DESIGN.md §4 D6/D7, §5 C02",
    note=core.TB + "The hex printer and the oracle comparator (vf/checks/re_common.py) are trusted (the printer is inside the AST tie). Spec decisions: a chained string reports "
                   "ONE admissible length; matches never span blocks; every piece stays below the 1024-byte window YR_RE_SCAN_LIMIT. Known finding "
                   "C02-chain-single-length (known_findings.json) excuses only MISSED offsets of chained patterns whose head pieces have several lengths; a model/code tie broken "
                   "without a property-level failing input is reported as `no-failing-input-found`.")

VALS = [0x01, 0x02, 0x03, 0x04, 0x11, 0x41, 0x42, 0x61, 0xAA, 0xBB, 0xCC, 0x00, 0xFF, 0x20, 0x0A]
JV = [0, 1, 2, 3, 199, 200, 201, 255, 256, 300]
SMALLJ = [0, 1, 2, 3]


# ---------------------------------------------------------------- pattern generator (syntax tree)
def gen_token(r, depth, in_alt):
    u = r.random()
    if depth < 3 and u < (0.16 if depth == 0 else 0.10):
        nb = r.choice([1, 2, 2, 2, 3])
        return ("alt", [gen_seq(r, r.randint(1, 3), depth + 1, True) for _ in range(nb)])
    v = r.choice(VALS) if r.random() < 0.85 else r.randint(0, 255)
    if u < 0.62:
        return ("b", v)
    if u < 0.72:
        return ("a",)
    if u < 0.84:
        m = r.choice([0xF0, 0x0F])
        return ("m", v & m, m)
    if u < 0.93:
        return ("n", v)
    m = r.choice([0xF0, 0x0F])
    return ("k", v & m, m)


def gen_jump(r, in_alt, allow_big):
    u = r.random()
    pool = [x for x in JV if (x <= 200 or (allow_big and not in_alt))]
    if u < 0.25:
        n = r.choice([x for x in pool if x >= 1])
        return ("j", n, n, "n")
    if u < 0.80 or in_alt:
        lo = r.choice(pool if r.random() < 0.5 else SMALLJ)
        hi = r.choice([x for x in pool if x >= lo] or [lo])
        return ("j", lo, hi, "nm")
    if not allow_big:
        lo = r.choice(SMALLJ)
        return ("j", lo, lo + r.choice(SMALLJ), "nm")
    if u < 0.92:
        return ("j", r.choice([0, 1, 2, 3, 199, 200, 201]), None, "n-")
    return ("j", 0, None, "-")


def gen_seq(r, n, depth, in_alt, bigs=None):
    """n tokens (jumps are inserted between tokens and do not count)"""
    items = [gen_token(r, depth, in_alt)]
    for _ in range(n - 1):
        if r.random() < (0.30 if depth == 0 else 0.18):
            allow_big = depth == 0 and bigs is not None and bigs[0] > 0
            j = gen_jump(r, in_alt, allow_big)
            if depth == 0 and (j[2] is None or j[1] > 200 or j[2] > 200):
                bigs[0] -= 1
            items.append(j)
            if r.random() < 0.04:
                items.append(gen_jump(r, in_alt, False))     # two consecutive jumps are grammatical
        items.append(gen_token(r, depth, in_alt))
    return items


def max_len(seq):
    t = 0
    for it in seq:
        if it[0] == "j":
            t += it[2] if it[2] is not None else 0
        elif it[0] == "alt":
            t += max(max_len(s) for s in it[1])
        else:
            t += 1
    return t


def merge_jumps(seq):
    """hex_grammar.y (token_sequence, since fix F73) merges consecutive jumps into one whose bounds are the sums of theirs; `[1]` is `??`
    (a token, not a jump) and is not merged. Applied recursively inside alternatives."""
    out = []
    for it in seq:
        if it[0] == "alt":
            it = ("alt", [merge_jumps(s) for s in it[1]]) + tuple(it[2:])
        isj = it[0] == "j" and not (it[3] == "n" and it[1] == 1)
        if isj and out and out[-1][0] == "j" and not (out[-1][3] == "n" and out[-1][1] == 1):
            p = out[-1]
            hi = None if (p[2] is None or it[2] is None) else p[2] + it[2]
            out[-1] = ("j", p[1] + it[1], hi, "nm" if hi is not None else "n-")
        else:
            out.append(tuple(it) if it[0] == "j" else it)
    return out


def pieces(seq):
    """split the top-level sequence at the jumps the compiler chains at (first qualifying jump of each remainder)"""
    seq = merge_jumps(seq)
    out, cur = [], []
    i = 0
    gaps = []
    while i < len(seq):
        it = seq[i]
        if it[0] == "j" and (it[2] is None or it[1] > 200 or it[2] > 200) and cur and i + 1 < len(seq):
            # as yr_re_ast_split_at_chaining_point: first non-greedy RANGE_ANY child with a previous and a next sibling
            out.append(cur); gaps.append((it[1], it[2])); cur = []
        else:
            cur.append(it)
        i += 1
    out.append(cur)
    return out, gaps


def make_strict(r, seq):
    """rewrite a chained pattern so that no listed chain finding covers it: non-tail pieces get a fixed length (the
    strict oracle then applies to the chain logic itself; alternations and variable prefixes in non-head pieces stay:
    their out-of-order candidates are what fix 81c4ffe is about)"""
    ps, _ = pieces(seq)
    if len(ps) < 2:
        return seq

    def fix_len(items):
        out = []
        for it in items:
            if it[0] == "j" and it[2] is not None and it[1] != it[2] and not (it[1] > 200 or it[2] > 200):
                out.append(("j", max(it[1], 1) if it[1] == 0 and it[2] >= 1 else it[1], None, None))
                v = out[-1][1]
                out[-1] = ("j", v, v, "nm")
            elif it[0] == "alt":
                lens = set()
                for b in it[1]:
                    ls = len_set(b)
                    lens |= ls if ls else {None}
                out.append(it if len(lens) == 1 and None not in lens else ("alt", [fix_len(it[1][0])]))
            else:
                out.append(it)
        return out

    # walk the top-level sequence piece by piece (chaining jumps stay as they are)
    out, cur, idx = [], [], 0
    flush = lambda cur, idx, last: cur if last else fix_len(cur)
    i = 0
    bounds = []
    for k, it in enumerate(seq):
        if it[0] == "j" and (it[2] is None or it[1] > 200 or it[2] > 200) and cur and k + 1 < len(seq):
            out += flush(cur, idx, False); out.append(it); cur = []; idx += 1
        else:
            cur.append(it)
    out += flush(cur, idx, True)
    return out


LOWQ = [0x00, 0xFF, 0x20, 0xCC]            # bytes the atom quality heuristic of atoms.c ranks low
DISTINCT = [0x01, 0x02, 0x03, 0x04, 0x11, 0x41, 0x42, 0x61, 0xAA, 0xBB, 0x7F, 0x90, 0xE9]


def gen_atom_run(r):
    """a run of 6-12 byte / ?? / nibble-mask tokens (no jump, negation or alternative in between) whose best 4-token
    atom window lies INSIDE the run and begins with a wildcard: low-quality bytes at the edges, `??` + distinctive bytes
    + `??` in the middle (atoms.c slides a window over such runs and trims leading wildcards: the atom's bytes and the
    code position verification starts from must stay in step)"""
    def low():
        u = r.random()
        if u < 0.55: return ("b", r.choice(LOWQ))
        if u < 0.75: return ("a",)
        m = r.choice([0xF0, 0x0F])
        return ("m", r.choice(VALS) & m, m)
    left = [("b", r.choice(LOWQ + [0x10, 0x41]))] + [low() for _ in range(r.choice([0, 0, 1, 2, 3]))]
    wild = [("a",)] * r.choice([1, 1, 1, 2])
    core = [("b", c) for c in r.sample(DISTINCT, r.choice([2, 3, 3, 3]))]
    if r.random() < 0.15:
        m = r.choice([0xF0, 0x0F]); core[1] = ("m", core[1][1] & m, m)
    after = [("a",)] if r.random() < 0.75 else [low()]
    right = [low() for _ in range(r.choice([0, 1, 1, 2, 3]))] + [("b", r.choice(LOWQ + [0x20, 0x30, 0x02]))]
    run = left + wild + core + after + right
    while len(run) < 6:
        run.insert(len(left), low())
    return run[:12]


def gen_pattern(r):
    if r.random() < 0.16:
        run = gen_atom_run(r)
        u = r.random()
        if u < 0.25:      # something before the run (the run is not the first thing verification sees)
            return gen_seq(r, r.choice([1, 2]), 0, False, [0]) + [gen_jump(r, False, False)] + run
        if u < 0.45:
            return run + [gen_jump(r, False, False)] + gen_seq(r, r.choice([1, 2]), 0, False, [0])
        return run
    for _ in range(50):
        bigs = [r.choice([0, 0, 0, 1, 1, 2, 3])]
        n = r.choice([1, 2, 2, 3, 3, 4, 4, 5, 6, 7, 8, 10])
        seq = gen_seq(r, n, 0, False, bigs)
        if r.random() < 0.55:
            seq = make_strict(r, seq)
        ps, _ = pieces(seq)
        def wide_jumps(p):
            n = 0
            for it in p:
                if it[0] == "j" and (it[2] is None or it[2] - it[1] > 40): n += 1
                elif it[0] == "alt": n += max(wide_jumps(s) for s in it[1])
            return n
        # pieces with alternatives run on the general VM: two wide jumps multiply the fibers beyond RE_MAX_FIBERS (an engine limit, C15)
        if all(max_len(p) <= 900 and (not has_alt(p) or wide_jumps(p) <= 1) for p in ps):
            return seq
    return [("b", 1), ("b", 2)]


def seq_text(seq):
    out = []
    for it in seq:
        k = it[0]
        if k == "b": out.append("%02X" % it[1])
        elif k == "a": out.append("??")
        elif k == "m": out.append("%X?" % (it[1] >> 4) if it[2] == 0xF0 else "?%X" % (it[1] & 15))
        elif k == "n": out.append("~%02X" % it[1])
        elif k == "k": out.append("~%X?" % (it[1] >> 4) if it[2] == 0xF0 else "~?%X" % (it[1] & 15))
        elif k == "j":
            st = it[3]
            out.append("[%d]" % it[1] if st == "n" else "[%d-%d]" % (it[1], it[2]) if st == "nm" else "[%d-]" % it[1] if st == "n-" else "[-]")
        elif k == "alt":
            out.append("( " + " | ".join(seq_text(s) for s in it[1]) + " )")
    return " ".join(out)


def seq_ast(seq):
    """the RE_AST hex_grammar.y builds (n-ary concat; normalised later)"""
    xs = []
    for it in merge_jumps(seq):
        k = it[0]
        if k == "b": xs.append(("lit", it[1]))
        elif k == "a": xs.append(("any",))
        elif k == "m": xs.append(("masked", it[1], it[2]))
        elif k == "n": xs.append(("notlit", it[1]))
        elif k == "k": xs.append(("maskednot", it[1], it[2]))
        elif k == "j":
            if it[3] == "n" and it[1] == 1:
                xs.append(("masked", 0, 0))           # "a jump of one is equivalent to ??"
            else:
                xs.append(("rangeany", it[1], INT_MAX if it[2] is None else it[2], False))
        elif k == "alt":
            acc = seq_ast(it[1][0])
            for s in it[1][1:]:
                acc = ("alt", acc, seq_ast(s))
            xs.append(acc)
    return xs[0] if len(xs) == 1 else ("concat", xs)


def has_alt(seq):
    return any(it[0] == "alt" and (len(it[1]) > 1 or any(has_alt(s) for s in it[1])) for it in seq)


# ---------------------------------------------------------------- buffers
FILL = [0x00, 0x01, 0x02, 0x41, 0xAA, 0xFF, 0x20, 0x0A, 0x37]


def filler(r, n, hot):
    pool = FILL + hot * 2
    return bytes(r.choice(pool) for _ in range(n))


def inst(r, seq, hot, bad=False):
    """a byte sequence satisfying `seq` (or, with bad=True, violating exactly one element when possible)"""
    out = bytearray()
    spoil = r.randrange(len(seq)) if bad else -1
    for i, it in enumerate(seq):
        k = it[0]
        sp = (i == spoil)
        if k == "b":
            out.append(it[1] ^ (r.choice([1, 0x20, 0x80]) if sp else 0))
        elif k == "a":
            out.append(r.choice(FILL + hot))
        elif k == "m":
            c = it[1] | (r.choice([0x00, 0xFF, r.randint(0, 255)]) & ~it[2] & 0xFF)      # the boundary nibbles 0 / F come up often
            out.append((c ^ (0x11 if sp else 0)) & 0xFF)
        elif k == "n":
            c = it[1] if sp else r.choice([x for x in FILL + hot + [it[1] ^ 1] if x != it[1]])
            out.append(c)
        elif k == "k":
            if sp:
                c = it[1] | (r.randint(0, 255) & ~it[2] & 0xFF)
            else:
                c = r.choice([x for x in range(256) if (x & it[2]) != it[1]][:: r.choice([1, 3, 7])])
            out.append(c)
        elif k == "j":
            lo, hi = it[1], it[2]
            if sp and lo > 0 and r.random() < 0.5:
                g = lo - 1
            elif sp and hi is not None:
                g = hi + 1
            elif hi is None:
                g = r.choice([lo, lo + 1, lo + r.randint(0, 40), lo + r.randint(0, 320)])
            else:
                g = r.choice([lo, hi, lo, hi, min(hi, lo + 1), max(lo, hi - 1), r.randint(lo, hi)])
            out += filler(r, g, hot)
        elif k == "alt":
            out += inst(r, r.choice(it[1]), hot, bad=sp)
    return bytes(out)


def hot_bytes(seq):
    hs = []
    for it in seq:
        if it[0] in ("b", "n"): hs.append(it[1])
        elif it[0] in ("m", "k"): hs.append(it[1])
        elif it[0] == "alt":
            for s in it[1]: hs += hot_bytes(s)
    return hs


def gen_buffer(r, seq):
    hot = hot_bytes(seq) or [1]
    ps, gaps = pieces(seq)
    buf = bytearray(filler(r, r.choice([0, 0, 1, 3, 17]), hot))
    u = r.random()
    if len(ps) > 1 and u < 0.75:
        # several heads / middles / tails per split pattern; group distance at / below / above the jump bounds
        for i, p in enumerate(ps):
            k = r.choice([1, 1, 2, 3])
            for c in range(k):
                buf += inst(r, p, hot, bad=r.random() < 0.12)
                if c + 1 < k:
                    buf += filler(r, r.choice([0, 1, 2, 5]), hot)
            if i < len(gaps):
                lo, hi = gaps[i]
                cands = [lo, lo + 1, max(0, lo - 1)] + ([hi, hi + 1, max(lo, hi - 1), (lo + hi) // 2] if hi is not None else [lo + 7, lo + 300])
                g = r.choice(cands)
                if len(buf) + g > 1400:
                    g = lo
                buf += filler(r, g, hot)
    else:
        for _ in range(r.choice([1, 1, 2, 3, 4])):
            if len(buf) > 1200:
                break
            buf += inst(r, seq, hot, bad=r.random() < 0.25)
            buf += filler(r, r.choice([0, 0, 1, 2, 9]), hot)
    if r.random() < 0.35 and len(buf) > 4:
        # overlapping candidates: overwrite a window with another instance of some piece
        p = inst(r, r.choice(ps), hot)
        o = r.randrange(len(buf))
        buf[o:o + len(p)] = p
    if r.random() < 0.1:
        buf = buf[: r.randrange(len(buf) + 1)]      # truncated tail
    return bytes(buf[:1536])


MALFORMED = ["{ [2] 01 02 }", "{ 01 02 [2] }", "{ 01 [0] 02 }", "{ 01 [5-3] 02 }", "{ 01 ( 02 [201] 03 | 04 ) 05 }", "{ 01 ( 02 [1-] 03 ) 05 }",
             "{ 01 ( 02 [-] 03 | 04 ) }", "{ 0 }", "{ 01 0 }", "{ ~?? 01 }", "{ }", "{ 01 | 02 }", "{ ( 01 | ) }", "{ 01 ~ 02 }", "{ 01 [1-2 02 }",
             "{ 01 [x] 02 }", "{ 01 (02 03 }", "{ G1 }", "{ 01 [2-1000000000000] 02 }", "{ ?? [300] }", "{ [-] }"]


def rule_text(pat):
    return "rule r { strings: $a = { %s } condition: #a >= 0 }" % pat


WINDOW = 1024 + 4          # YR_RE_SCAN_LIMIT + YR_MAX_ATOM_LENGTH: the slack of the chain pruning in scan.c


def gen_chain_decoy(r):
    """a chain of 3-4 fixed pieces `H [a-b] M [c-d | c-] T` with a BOUNDED first jump above the chaining threshold, and a
    buffer of several KB with the genuine occurrences plus DECOY occurrences of the non-head pieces below / at / beyond the
    pruning window (gap_max + YR_RE_SCAN_LIMIT + YR_MAX_ATOM_LENGTH behind the head), before and after the genuine ones
    (scan.c prunes unconfirmed matches of the previous piece against the lowest unconfirmed offset of the current one)"""
    bytes_pool = r.sample([0x11, 0x22, 0x33, 0x44, 0x55, 0x66, 0x77, 0x88, 0x99, 0xAB, 0xCD, 0xEF, 0x12, 0x34, 0x56, 0x78], 16)
    def piece():
        n = r.choice([2, 3, 4])
        return [("b", bytes_pool.pop()) for _ in range(n)]
    npieces = r.choice([3, 3, 3, 4])
    ps = [piece() for _ in range(npieces)]
    jumps = []
    for i in range(npieces - 1):
        if i == 0 or r.random() < 0.4:
            lo = r.choice([0, 0, 5, 201, 300])
            hi = max(lo, r.choice([201, 250, 300, 300, 400]))
            jumps.append(("j", lo, hi, "nm"))
        elif r.random() < 0.5:
            lo = r.choice([0, 201, 300])
            jumps.append(("j", lo, r.choice([3000, 5000]), "nm"))
        else:
            jumps.append(("j", r.choice([0, 201, 300]), None, "n-"))
    seq = []
    for i, p in enumerate(ps):
        seq += p
        if i < len(jumps):
            seq.append(jumps[i])
    fill = lambda n: bytes(r.choice([0x00, 0x37, 0x38, 0xF0]) for _ in range(n))
    raw = lambda p: bytes(t[1] for t in p)
    buf = bytearray(fill(r.choice([0, 0, 3, 20])))
    ends = []                                       # end offset of the genuine occurrence of every piece
    for i, p in enumerate(ps):
        if i > 0:
            lo, hi = jumps[i - 1][1], jumps[i - 1][2]
            gmax = hi if hi is not None else lo + 400
            # decoys of THIS piece: before the genuine one is too early to matter, so they go after it (below)
            if i == 1:
                g = r.choice([lo, gmax, (lo + gmax) // 2, min(gmax, lo + 10)])
            elif hi is None:
                g = r.choice([lo, lo + 1500, lo + 2500, lo + 3500, lo + 1800])
            else:
                g = r.choice([lo, min(gmax, 2500), min(gmax, lo + 1500), gmax if gmax < 4000 else 3000])
            # decoys of the PREVIOUS piece inside this gap, measured from the end of the piece before it
            if i >= 2 and g > 40:
                plo, phi = jumps[i - 2][1], jumps[i - 2][2]
                pmax = phi if phi is not None else plo + 400
                base = ends[i - 2]
                gap = bytearray(fill(g))
                for _ in range(r.choice([1, 1, 2])):
                    d = r.choice([pmax + WINDOW - 2, pmax + WINDOW, pmax + WINDOW + 1, pmax + WINDOW + 2, pmax + WINDOW + 60, pmax + 500, pmax + 2 * WINDOW])
                    o = base + d - len(buf)              # offset inside the gap
                    pr = raw(ps[i - 1])
                    if 0 <= o and o + len(pr) + 2 <= len(gap):
                        gap[o:o + len(pr)] = pr
                buf += gap
            else:
                buf += fill(g)
        buf += raw(p)
        ends.append(len(buf))
    # trailing decoys of the tail and of the middle pieces
    for _ in range(r.choice([0, 1, 2])):
        buf += fill(r.choice([1, 50, 300, WINDOW + 301])) + raw(r.choice(ps[1:]))
    buf += fill(r.choice([0, 2]))
    return seq, bytes(buf[:9000])


def gen_big_jump(r):
    """pieces of 2-4 fixed bytes separated by FIXED or NARROW large jumps (`[n]`, `[n-m]` with m-n < 200) at the chaining
    threshold (200 / 201), around YR_RE_SCAN_LIMIT minus the literal lengths (1000-1030), and far beyond (1100, 3000): the
    compiler must split at every jump with n > 200 or m > 200 whatever its width, a REPEAT_ANY instruction only verifies
    within 1024 bytes of the atom.  Buffers hold the genuine occurrence(s) at gap n / m / between, and near misses."""
    pool = r.sample([0x11, 0x22, 0x33, 0x44, 0x55, 0x66, 0x77, 0x88, 0x99, 0xAB, 0xCD, 0xEF, 0x12, 0x34, 0x56, 0x78], 16)
    def piece():
        return [("b", pool.pop()) for _ in range(r.choice([2, 3, 4, 4]))]
    def jump():
        u = r.random()
        if u < 0.55:
            n = r.choice([200, 201, 1000, 1012, 1015, 1016, 1017, 1018, 1019, 1020, 1024, 1030, 1100, 3000, r.randint(1005, 1030)])
            return ("j", n, n, "n")
        lo = r.choice([199, 200, 201, 1000, 1010, 1016, 2000, r.randint(1000, 1024)])
        hi = lo + r.choice([1, 2, 30, 100, 199])
        return ("j", lo, hi, "nm")
    np_ = r.choice([2, 2, 2, 3])
    ps = [piece() for _ in range(np_)]
    js = [jump() for _ in range(np_ - 1)]
    seq = []
    for i, p in enumerate(ps):
        seq += p
        if i < len(js): seq.append(js[i])
    fill = lambda n: bytes(r.choice([0x00, 0x37, 0x38, 0xF0]) for _ in range(n))
    raw = lambda p: bytes(t[1] for t in p)
    buf = bytearray(fill(r.choice([0, 0, 5])))
    for _ in range(r.choice([1, 1, 2])):
        for i, p in enumerate(ps):
            buf += raw(p)
            if i < len(js):
                lo, hi = js[i][1], js[i][2]
                buf += fill(r.choice([lo, hi, (lo + hi) // 2, lo, hi, max(0, lo - 1), hi + 1]))
        buf += fill(r.choice([0, 3, 40]))
    return seq, bytes(buf[:16000])


def gen_consecutive_jumps(r):
    """two or three jumps in a row between fixed pieces (legal: `tokens : token token_sequence token`): the grammar merges them into one jump
    (fix F73); before that the second jump of a pair whose first one is a chaining point was emitted with its bounds truncated to 16 bits
    (`41 [300] [2-65540] 42`).  Sums crossing the chaining threshold, a large second bound, and the same inside an alternative (small only)."""
    pool = r.sample([0x11, 0x22, 0x33, 0x44, 0x55, 0x66, 0x77, 0x88, 0x99, 0xAB, 0xCD, 0xEF], 12)
    piece = lambda: [("b", pool.pop()) for _ in range(r.choice([2, 3, 4]))]
    a, b = piece(), piece()
    def small():
        lo = r.choice([0, 2, 3, 50, 100, 150, 199, 200])
        return ("j", lo, lo, "nm") if r.random() < 0.4 or lo < 2 else ("j", lo, lo + r.choice([0, 1, 5, 60]), "nm")
    def chaining():
        lo = r.choice([201, 250, 300])
        return ("j", lo, lo + r.choice([0, 0, 10, 100]), "nm")
    def huge():
        lo = r.choice([0, 2, 10])
        return ("j", lo, 65536 + r.choice([0, 1, 4, 100, 300]), "nm")
    shape = r.choice(["ch+huge", "ch+huge", "small+huge", "small+small", "small+small+small", "ch+small", "alt"])
    if shape == "alt":
        js = [("j", r.choice([2, 50, 100]), 150, "nm"), ("j", r.choice([2, 60]), 120, "nm")]
        c = piece()
        seq = a + [("alt", [[("b", 0x41)] + js + [("b", 0x42)], c])] + b
        lo, hi = js[0][1] + js[1][1], js[0][2] + js[1][2]
        mid = lambda g: bytes(t[1] for t in a) + b"\x41" + bytes(r.choice([0x00, 0x37, 0xF0]) for _ in range(g)) + b"\x42" + bytes(t[1] for t in b)
        buf = b"\x00\x00" + mid(r.choice([lo, hi, (lo + hi) // 2, max(0, lo - 1), hi + 1])) + b"\x37" + mid(r.choice([lo, hi]))
        return seq, buf
    js = [{"ch": chaining, "small": small, "huge": huge}[k]() for k in shape.split("+")]
    seq = a + js + b
    lo = sum(j[1] for j in js)
    hi = sum(j[2] for j in js)
    fill = lambda n: bytes(r.choice([0x00, 0x37, 0x38, 0xF0]) for _ in range(n))
    raw = lambda p: bytes(t[1] for t in p)
    cands = [lo, lo + 1, lo + 6, lo + 10, lo + 70, max(0, lo - 1), min(hi, lo + 700), min(hi, 2500), hi + 1 if hi < 3000 else lo + 305]
    buf = bytearray(fill(r.choice([0, 3])))
    for _ in range(r.choice([1, 2])):
        buf += raw(a) + fill(r.choice(cands)) + raw(b) + fill(r.choice([0, 2, 30]))
    return seq, bytes(buf[:16000])


def gen_case(r, cid):
    u0 = r.random()
    if u0 < 0.04:
        seq, buf = gen_consecutive_jumps(r)
    elif u0 < 0.09:
        seq, buf = gen_chain_decoy(r)
    elif u0 < 0.15:
        seq, buf = gen_big_jump(r)
    else:
        seq = gen_pattern(r)
        buf = gen_buffer(r, seq)
    ast = rc.norm(seq_ast(seq))
    text = seq_text(seq)
    ps, gaps = pieces(seq)
    meta = dict(pattern=text, pieces=len(ps), alt=has_alt(seq), buflen=len(buf), gaps=gaps, seq=seq)
    line = "%s src=%s re=%s fl=as buf=%s info=1 code=1 fx=1 atoms=1" % (cid, hx(rule_text(text)), rc.ast_text(ast), hx(buf))
    return line, meta


CORPUS = [
    # chain pruning (F13, fixed by 81c4ffe) and relatives
    ("01 02 03 04 [0-300] ( AA BB CC DD | 11 ?? ?? ?? ?? 66 77 88 99 )", bytes([1, 2, 3, 4]) + b"\0" * 300 + bytes([0x11, 0xAA, 0xBB, 0xCC, 0xDD, 0x66, 0x77, 0x88, 0x99])),
    ("01 02 03 04 [0-300] ( AA BB CC DD | 11 ?? ?? ?? ?? 66 77 88 99 )", bytes([1, 2, 3, 4]) + b"\0" * 300 + bytes([0x11, 0xA0, 0xBB, 0xCC, 0xDD, 0x66, 0x77, 0x88, 0x99])),
    ("01 02 [201] 03 04", bytes([1, 2]) + b"\x41" * 201 + bytes([3, 4])),
    ("01 02 [201] 03 04", bytes([1, 2]) + b"\x41" * 200 + bytes([3, 4])),
    ("01 02 [200-] 03 04", bytes([1, 2]) + b"\x41" * 200 + bytes([3, 4, 3, 4])),
    ("01 02 [-] 03 04 [2-201] 05", bytes([1, 2, 1, 2, 3, 4]) + b"\x05" * 3 + b"\0" * 199 + b"\x05"),
    # three pieces, a decoy of the middle piece beyond the pruning window behind the head, before the tail
    ("A1 A2 A3 [0-300] B1 B2 B3 [0-5000] C1 C2 C3", bytes([0xA1, 0xA2, 0xA3]) + b"\0" * 7 + bytes([0xB1, 0xB2, 0xB3]) + b"\0" * 1987 + bytes([0xB1, 0xB2, 0xB3]) + b"\0" * 997 + bytes([0xC1, 0xC2, 0xC3]) + b"\0"),
    ("A1 A2 A3 [0-300] B1 B2 B3 [300-] C1 C2 C3", bytes([0xA1, 0xA2, 0xA3]) + b"\0" * 7 + bytes([0xB1, 0xB2, 0xB3]) + b"\0" * 1987 + bytes([0xB1, 0xB2, 0xB3]) + b"\0" * 997 + bytes([0xC1, 0xC2, 0xC3]) + b"\0"),
    # fixed / narrow jumps beyond the 1024-byte verification window must be chaining points
    ("01 02 03 04 [1017] 05 06 07 08", bytes([1, 2, 3, 4]) + b"\0" * 1017 + bytes([5, 6, 7, 8])),
    ("01 02 03 04 [3000] 05 06 07 08", bytes([1, 2, 3, 4]) + b"\0" * 3000 + bytes([5, 6, 7, 8])),
    ("01 02 03 04 [2000-2199] 05 06 07 08", bytes([1, 2, 3, 4]) + b"\0" * 2100 + bytes([5, 6, 7, 8])),
    # the best atom window is interior and begins with a wildcard (atoms.c window shift)
    ("10 ?? 41 42 43 ?? 20 30", b"\x00\x00\x00\x00" + bytes([0x10, 0x99, 0x41, 0x42, 0x43, 0x77, 0x20, 0x30]) + b"\x00"),
    ("1? ?? 41 42 43 ?? 2?", b"\x00\x00\x00\x00" + bytes([0x1A, 0x99, 0x41, 0x42, 0x43, 0x77, 0x2B]) + b"\x41\x42\x43"),
    ("01 ?2 [1] ~03 ~?4 ( 05 | 06 07 )", bytes([1, 0x32, 9, 4, 0x15, 6, 7, 1, 0x02, 9, 3, 0x15, 5])),
]


def clean_out(pid):
    import glob, os
    for f in glob.glob(os.path.join(core.OUT, pid, "*.json")):
        os.remove(f)


def run(tier, replay=None):
    chk = core.Check("C02", tier)
    clean_out("C02")
    lres = core.lean_check(THM)
    core.proof_coverage(chk, lres, THM)
    b = core.build("asan", harness=["h_scan", "h_re"])
    r = core.rng("C02")
    n = 1000 if tier == "quick" else 12000
    cases, metas = [], {}
    for i, (pat, buf) in enumerate(CORPUS):
        cid = "k%d" % i
        cases.append("%s src=%s re=? fl=as buf=%s info=1 code=1 fx=1 atoms=1" % (cid, hx(rule_text(pat)), hx(buf)))
        metas[cid] = dict(pattern=pat, corpus=True, buflen=len(buf))
    for i in range(n):
        line, meta = gen_case(r, "c%d" % i)
        cases.append(line); metas[line.split(" ", 1)[0]] = meta
    mal = ["x%d src=%s buf=00" % (i, hx("rule r { strings: $a = %s condition: $a }" % p)) for i, p in enumerate(MALFORMED)]
    if replay:
        cases, mal = [replay["case"]], []
        metas[replay["case"].split(" ", 1)[0]] = replay.get("meta", {})
    found = False
    # ---- parser tie first: it also supplies the AST of the corpus cases (whose `re=?` is filled from the real parser)
    amap, crash_re = rc.run_robust(core, [b["h_re"]], cases)
    fixed = []
    for c in cases:
        cid = c.split(" ", 1)[0]
        if " re=? " in c:
            a = amap.get(cid, "")
            tok = [t for t in a.split() if t.startswith("ast=")]
            astt = tok[0].split(":", 2)[2] if tok else "e"
            c = c.replace(" re=? ", " re=%s " % astt)
        fixed.append(c)
    cases = fixed
    imap, crash_scan = rc.run_robust(core, [b["h_scan"]], cases + mal)
    impl = [imap[c.split(" ", 1)[0]] for c in cases if c.split(" ", 1)[0] in imap]
    for hname, lst in (("h_scan", crash_scan), ("h_re", crash_re)):
        for c, rcx, errx in lst[:5]:
            cid = c.split(" ", 1)[0]
            chk.violation("crash_%s_%s.json" % (hname, cid), {"kind": "crash / sanitizer report while compiling or scanning", "engine": "re", "harness": hname, "case": c,
                                                              "rc": rcx, "stderr": errx[-2500:], "meta": metas.get(cid, {})})
            found = True
    mmap = {}
    if lres.get("driver_ok"):
        mmap, _ = rc.run_robust(core, [core.driver_path(), "re"], cases, chunk_timeout=300, single_timeout=30)
    model = [mmap[c.split(" ", 1)[0]] for c in cases if c.split(" ", 1)[0] in mmap]
    kf = {f["id"]: f for f in core.known_findings("C02")}
    nviol = 0
    hist = {"chained": 0, "alt": 0, "with_matches": 0, "spec_offsets": 0, "reported": 0, "ast_tie_ok": 0, "cerr": 0, "pieces": {}, "fast": 0}
    distinct = set()
    known_hits = {}
    for c in cases:
        cid = c.split(" ", 1)[0]
        meta = metas.get(cid, {})
        il, ml, al = imap.get(cid), mmap.get(cid), amap.get(cid)
        if il is None or ml is None or al is None:
            continue
        d = rc.parse_scan(il)
        toks = dict(t.split("=", 1) for t in c.split()[1:] if "=" in t)
        if d["status"] == "SERR" and d.get("err") == "TOO_MANY_RE_FIBERS":
            hist["limit_fibers"] = hist.get("limit_fibers", 0) + 1      # documented engine limit (C15), outside this property
            continue
        if d["status"] != "OK":
            hist["cerr"] += 1
            chk.violation("cerr_%s.json" % cid, {"kind": "well-formed hex string rejected or scan error", "engine": "re", "harness": "h_scan", "case": c, "implementation": il, "meta": meta})
            nviol += 1; found = True
            continue
        # AST tie
        tok = [t for t in al.split() if t.startswith("ast=")]
        c_ast = tok[0].split(":", 2) if tok else ["", "", ""]
        if not meta.get("corpus"):
            if c_ast[2] != toks["re"]:
                if nviol < 10:
                    chk.violation("ast_%s.json" % cid, {"kind": "parser AST differs from the pattern's AST (lexer/grammar glue)", "engine": "re", "harness": "h_re", "case": c,
                                                       "implementation": c_ast[2], "model_spec": toks["re"], "meta": meta})
                nviol += 1; found = True
                continue
            fast_expected = not meta.get("alt")
            if bool(int(c_ast[1]) & 2) != fast_expected:
                if nviol < 10:
                    chk.violation("astflags_%s.json" % cid, {"kind": "RE_FLAGS_FAST_REGEXP wrong for the pattern", "engine": "re", "harness": "h_re", "case": c, "implementation": al[:300], "meta": meta})
                nviol += 1; found = True
            hist["ast_tie_ok"] += 1
            hist["fast"] += int(fast_expected)
        spec = rc.parse_spec(ml)
        if spec.get("kind") != "S":
            chk.violation("driver_%s.json" % cid, {"kind": "driver could not evaluate the case", "engine": "re", "case": c, "model_spec": ml}, no_input=True)
            nviol += 1
            continue
        ms = d["matches"].get("$a", [])
        blen = len(toks["buf"]) // 2 if toks["buf"] != "-" else 0
        viol, _ = rc.judge(ms, spec, True, False, False, blen)
        np_ = meta.get("pieces", 1)
        hist["pieces"][str(np_)] = hist["pieces"].get(str(np_), 0) + 1
        hist["chained"] += int(any("C" in part.split(":", 1)[1] for part in (d.get("info") or "").split("/")[1:] if ":" in part))
        hist["alt"] += int(bool(meta.get("alt")))
        if np_ > 1 and meta.get("seq") is not None:
            pz, _ = pieces(meta["seq"])
            strict = not any(variable_len(p) for p in pz[:-1])
            hist["chained_strict"] = hist.get("chained_strict", 0) + int(strict)
        hist["with_matches"] += int(bool(ms))
        hist["spec_offsets"] += len(spec.get("a", {}))
        hist["reported"] += len(ms)
        if spec.get("a"):
            distinct.add((meta.get("pattern"), toks["buf"]))
        if viol:
            sig = classify_known(kf, meta, c, viol, d)
            if sig:
                known_hits.setdefault(sig, []).append(cid)
                continue
            if nviol < 10:
                chk.violation("match_%s.json" % cid, {"kind": "match list differs from the specification", "engine": "re", "harness": "h_scan", "case": c,
                                                     "implementation": il[:2000], "model_spec": ml[:2000], "problems": viol[:10], "meta": meta})
            nviol += 1; found = True
    for sig, ids in known_hits.items():
        chk.known(kf.get(sig), "%s hex chain: %s (%d cases, e.g. %s)" % (sig, kf[sig]["text"][:160], len(ids), ids[0]))
    # malformed stream: clean rejection only
    nmal = 0
    for c in mal:
        cid = c.split(" ", 1)[0]
        il = imap.get(cid)
        if il is None:
            continue
        nmal += 1
        if il.split()[1] != "CERR":
            chk.violation("malformed_%s.json" % cid, {"kind": "malformed hex string accepted", "engine": "re", "harness": "h_scan", "case": c, "implementation": il})
            found = True
    fxres = check_fx(chk, b, cases, amap, lres, replay, found)
    found = found or fxres.get("found", False)
    wres, wfound = rc.check_wfx(core, chk, b, cases, lambda l, kind, err: False, found_so_far=found) if lres.get("driver_ok") else ({}, False)
    ares, afound = rc.check_atoms(core, chk, cases, imap, amap, found_so_far=found) if lres.get("driver_ok") else ({}, False)
    found = found or afound
    cres, cfound = rc.check_chain(core, chk, cases, amap) if lres.get("driver_ok") else ({}, False)
    found = found or cfound
    gres, gfound = rc.check_hexg(core, chk, cases, amap) if lres.get("driver_ok") else ({}, False)
    found = found or gfound
    found = found or wfound
    chk.cov.update({
        "evaluations": len(cases) + len(mal), "distinct_nontrivial": len(distinct),
        "rule": "generated hex pattern x buffer built from instances / near-misses of the pattern; non-trivial = the specification admits at least one match in the buffer "
                "(distinct (pattern, buffer) pairs)",
        "histogram": hist, "malformed_rejected": nmal, "violating_cases": nviol, "known_finding_cases": {k: len(v) for k, v in known_hits.items()},
        "traces_validated_against_impl": len(cases) - nviol, "fx": fxres.get("cov"), "wfx": wres, "atoms_tie": ares, "chain_tie": cres, "hexg_tie": gres, "hexg_checked": gres.get("hexg_checked"), "hexg_false": gres.get("hexg_false"),
        "samples": [{"case_meta": metas.get(cases[min(len(cases) - 1, len(CORPUS))].split(" ", 1)[0]), "implementation": (impl[min(len(impl) - 1, len(CORPUS))][:300] if impl else None),
                     "model": (model[min(len(model) - 1, len(CORPUS))][:300] if model else None)}],
    })
    core.handle_broken_proof(chk, lres, found)
    chk.assumptions += ["each piece of a chained pattern is shorter than the 1024-byte verification window (generator keeps pieces <= 900 bytes)",
                        "single block scans (strings never match across block boundaries: spec decision)",
                        "which admissible length is reported is not constrained beyond membership (first completion / shortest: spec decision)"]
    return chk.finish("proof")


def len_set(seq, cap=64):
    """set of possible lengths of a sequence (None when larger than cap / unbounded)"""
    acc = {0}
    for it in seq:
        if it[0] == "j":
            if it[2] is None or it[2] - it[1] + 1 > cap:
                return None
            step = set(range(it[1], it[2] + 1))
        elif it[0] == "alt":
            step = set()
            for s in it[1]:
                ls = len_set(s, cap)
                if ls is None:
                    return None
                step |= ls
        else:
            step = {1}
        acc = {a + b for a in acc for b in step}
        if len(acc) > cap:
            return None
    return acc


def variable_len(seq):
    ls = len_set(seq)
    return ls is None or len(ls) > 1


def classify_known(kf, meta, case, viol, d):
    """returns the id of the listed finding whose signature the failing case matches, else None"""
    if not all(v.startswith("missed match") for v in viol):
        return None
    chained = any("C" in part.split(":", 1)[1] for part in (d.get("info") or "").split("/")[1:] if ":" in part)
    if not chained:
        return None
    seq = meta.get("seq")
    if seq is None:
        return None
    ps, _ = pieces(seq)
    if "C02-chain-single-length" in kf and any(variable_len(p) for p in ps[:-1]):
        return "C02-chain-single-length"
    return None


def check_fx(chk, b, cases, amap, lres, replay, found_so_far=False):
    """translation validation on the real bytecode: C VM (h_re fx=) vs Lean VM model (driver `revm`) on the same code"""
    import os
    if not os.path.exists(os.path.join(core.LEAN, "Driver", "Revm.lean")) or not lres.get("driver_ok"):
        return {"cov": "not built"}
    lines = []
    orig = {c.split(" ", 1)[0]: c for c in cases}
    for c in cases:
        cid = c.split(" ", 1)[0]
        a = amap.get(cid, "")
        t = a.split()
        if len(t) < 2 or t[1] != "OK":
            continue
        code = [x for x in t if x.startswith("code=")]
        fx = [x for x in t if x.startswith("fx=")]
        strs = [x for x in t if x.startswith("strs=")]
        buf = [x for x in c.split() if x.startswith("buf=")]
        if code and fx and strs and buf:
            lines.append((cid, "%s %s %s %s pairs=%s" % (cid, code[0], strs[0], buf[0], ",".join(p.split("|", 1)[0] for p in fx[0][3:].split(";")) if fx[0] != "fx=-" else "-"), fx[0]))
    if len(lines) > 6000:
        lines = lines[:: (len(lines) + 5999) // 6000]        # thorough tier: the Lean VM runs on a deterministic sample
    mm, mcr = rc.run_robust(core, [core.driver_path(), "revm"], [l for _, l, _ in lines], chunk_timeout=45, single_timeout=10)
    skipped = set(c.split(" ", 1)[0] for c, _, _ in mcr)          # the model ran out of time on these (fuel-bounded loops)
    bad = 0
    found = False
    def entries(tok):
        """'fx=<hdr>|<p>:<a|w>:<rest>|..;<hdr>|..' -> {(hdr, p, pass): rest}"""
        out = {}
        body = tok.split("fx=", 1)[1] if "fx=" in tok else ""
        if body in ("", "-"):
            return out
        for pr in body.split(";"):
            items = pr.split("|")
            for it in items[1:]:
                f = it.split(":", 2)
                if len(f) == 3:
                    out[(items[0], f[0], f[1])] = f[2]
        return out

    for cid, l, fx in lines:
        if cid in skipped or cid not in mm:
            continue
        A, M = entries(fx), entries(mm.get(cid) or "")
        diffs = []
        for k in set(A) | set(M):
            a, m = A.get(k), M.get(k)
            # an engine limit error (E...) or a model outcome `X` (out of fuel / behaviour undefined in C: dead fiber reused) is not comparable
            if (a or "").startswith("E") or (m or "").startswith("X") or (m or "").endswith(":X") or (a or "").endswith(":E"):
                continue
            if a != m:
                diffs.append((k, a, m))
        if diffs:
            if bad < 5:
                chk.violation("fx_%s.json" % cid, {"kind": "real bytecode: C VM result differs from the Lean VM model", "engine": "revm", "harness": "h_re", "case": orig.get(cid, l),
                                                  "revm_case": l[:4000],
                                                  "implementation": ("%s %s" % (cid, fx))[:3000], "model": (mm.get(cid) or "")[:3000],
                                                  "differences": [[list(k), a, m] for k, a, m in diffs[:6]]}, no_input=not found_so_far)
            bad += 1
            found = True
    return {"found": found, "cov": {"cases_with_code": len(lines), "disagreements": bad, "model_timeouts": len(skipped)}}
