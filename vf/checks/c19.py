"""C19 — compiled rules do not depend on how internal storage grew.

Proof layer: Thm/C19.lean (relocation is invisible: `grow_abs`; the arena API refines an address-free
abstract machine: `exec_refines`, `run_refines`; any operation sequence inside the protocol `OpsOK` under
any initial size, capacity, address, always-move setting and realloc schedule gives the same observations,
the same abstract arena and the same saved bytes: `run_abs`).  Tie: (1) the Lean arena model runs the same
random operation sequences as the real arena API (h_arena), each under two configurations; every result is
compared with the model and the two implementation runs with each other; (2) the construct corpus of C08 is compiled
under every initial capacity of a Fibonacci ladder from 1 byte to 1 MiB and with the always-move hook,
and saved image, externals and scan results must equal the default build's; a stale pointer is an
AddressSanitizer report in the forked child (its summary + the rule set are the replay)."""
import collections
from vf import core
from vf.checks import arena_common as ac

PID = "C19"
THM = ["YaraModel.Thm.C19"]
MANIFEST = dict(
    technique="Lean 4 refinement proof: the executable model of arena.c simulates an address-free abstract machine, for every operation sequence inside "
              "the protocol and every configuration (initial size, capacities, addresses, always-move, realloc schedule) + op-sequence correspondence "
              "with the real arena API incl. the same op list run under two configurations + differential compilation under forced growth",
    text="proof: Thm/C19.lean proves on the arena model (Model/Arena.lean, arena.c line by line; comparison operators and constants regenerated from the "
         "source) that the arena API refines an address-free abstract machine (Spec/Arena.lean astep/arun: buffers as byte lists, registered slots holding "
         "(buffer, offset) references). exec_refines: for every arena obeying the protocol WF, every operation of the model (write_data, zeroed "
         "allocation, allocate_struct with relocatable fields, make_ptr_relocatable, storing a pointer obtained from ref_to_ptr into a registered slot, "
         "write-and-register a pointer, register-and-fill a slot, memcpy into allocated bytes, reading a slot back through ptr_to_ref, ref_to_ptr followed "
         "by ptr_to_ref) that the abstract machine accepts, every always-move setting, initial size, capacity, base address and admissible realloc "
         "answer: the operation returns the abstract machine's address-free observation, keeps WF (no stale pointer, no assert, nothing out of bounds) and "
         "yields the abstract machine's abstract content — or ERROR_INSUFFICIENT_MEMORY. run_refines lifts this by induction to every operation list; "
         "run_abs: two runs of the same list from arenas with equal abstract content under different configurations and realloc schedules give equal "
         "observations at every step, equal abstract content and byte-identical saved images (create_run_abs: from yr_arena_create with any two initial "
         "sizes). The protocol is the decidable predicate OpsOK = 'the abstract run is defined' (slots registered while holding NULL or filled right "
         "at registration, pointers stored are NULL or point to used bytes, memcpy does not touch registered slots, the pointer written by "
         "write-and-register does not point into the buffer being appended to: no raw pointer kept across an allocation of its target). Also grow_abs / "
         "grow_wf (one growth is invisible / leaves no stale reference), alloc_abs, alloc_seq_abs (allocation-only special case), save_of_abs, grow_save. "
         "run_defined: if no zeroed allocation goes to a buffer that earlier received a raw one (KindsOK, decidable on the list) the model never flags "
         "contents as unspecified (arena.c clears memory only on the growth path), whatever the configuration. Outside the theorems: yr_arena_release; a "
         "pointer stored into an unregistered slot and registered only after further allocations (outside OpsOK: the raw pointer would be stale); "
         "ERROR_INSUFFICIENT_MEMORY (reaching the 4 GB limit does depend on the initial size) is the one admitted difference between runs. The model is tied to arena.c by random operation sequences run by both; every "
         "sequence is run under two configurations (other initial size and/or always-move toggled) and the two IMPLEMENTATION runs must agree on every "
         "address-free output and saved image on the prefix inside OpsOK (computed by the abstract machine in the driver), which also re-checks the model "
         "against the abstract machine at run time. That the real compiler obeys the protocol (keeps references, not raw pointers, across allocations) is "
         "sampled: a generated corpus of rule sets over all constructs is compiled under a ladder of initial capacities from 1 byte to 1 MiB and with "
         "every allocation forced to move its buffer, under ASan; images must be byte-identical and scan results equal.",
    design_ref="DESIGN.md §5 C19, §4 D9",
    note=core.TB + "The compiler's use of the arena (dozens of call sites) is covered by sampling rule constructs, not by proof. "
         "Built with -fsanitize-recover=alignment,bounds so that two benign UBSan reports inside arena.c are recorded as findings instead of ending the run.")

CAPS = [1, 2, 3, 5, 8, 13, 21, 34, 55, 89, 144, 233, 377, 610, 987, 1597, 2584, 4181, 6765, 10946, 17711, 28657, 46368, 75025, 121393,
        196418, 317811, 514229, 832040, 1048576]
KEYS = ("C", "E", "O", "S", "IMG", "L", "LO")


def variants(tier, r):
    v = [("d", {})]
    caps = CAPS if tier != "quick" else CAPS[:16] + r.sample(CAPS[16:], 4)
    for c in caps:
        v.append(("c%d" % c, {"init": c}))
    v.append(("m", {"move": 1}))
    v.append(("m1", {"move": 1, "init": 1}))
    v.append(("m7", {"move": 1, "init": 7}))
    return v


def run(tier, replay=None):
    chk = core.Check(PID, tier)
    th = core.run_translators(["arenalayout"])
    lres = core.lean_check(THM)
    core.proof_coverage(chk, lres, THM, th)
    b = core.build("asan", harness=["h_grow", "h_arena"], **ac.REC)
    findings = core.known_findings(PID)
    found = False
    r = core.rng(PID)
    ubs = set()

    if replay and replay.get("part") == "ops":
        f, cov, u = ac.ops_tie(chk, b, 1, PID + "/ops", replay_case=replay["case"], replay_twin=replay.get("twin"))
        core.handle_broken_proof(chk, lres, f)
        return chk.finish("proof")

    # ---- (1) model <-> arena.c on operation sequences
    if lres.get("driver_ok") and not replay:
        f, cov, u = ac.ops_tie(chk, b, 400 if tier == "quick" else 6000, PID + "/ops", loads="none", twin=True)
        found |= f
        ubs |= u
        chk.cov.update(cov)

    # ---- (2) the compiler under every growth schedule
    n = 36 if tier == "quick" else 400
    cases = ac.gen_cases(r, n)
    lines, meta = [], {}
    if replay:
        lines = replay["lines"]
        for l in lines:
            meta[l.split(" ", 1)[0]] = (0, l.split(" ", 1)[0].split(".")[-1])
    else:
        for i, c in enumerate(cases):
            for name, kw in variants(tier, r):
                cid = "g%d.%s" % (i, name)
                lines.append(ac.case_line(cid, c, **kw))
                meta[cid] = (i, name)
    out, rc, err = core.run_parallel(ac.capped(b["h_grow"]), lines, env=ac.scratch_env(PID))
    if rc != 0:
        chk.violation("harness_crash.json", {"kind": "harness-failed", "rc": rc, "stderr": err, "harness": "h_grow"})
        found = True
    res = {}
    for l in out:
        l2, u = ac.split_ub(l)
        ubs |= set(u)
        d = ac.fields(l2)
        res[d["id"]] = d
    byline = {l.split(" ", 1)[0]: l for l in lines}
    st = collections.Counter()
    feats = collections.Counter()
    nontrivial = set()
    nviol = 0
    groups = collections.defaultdict(list)
    for cid in byline:
        groups[cid.rsplit(".", 1)[0]].append(cid)
    for g, ids in groups.items():
        ref = res.get(g + ".d")
        if ref is None:
            st["no-reference"] += 1
            continue
        if ref.get("C") != "OK":
            st["compile-rejected"] += 1
            continue
        if not replay:
            for f in cases[int(g[1:])]["feats"]:
                feats[f] += 1
        if "CRASH" not in ref and not ref.get("N", "0:0").startswith("0:"):
            nontrivial.add(byline[g + ".d"].split(" ", 1)[1])
        for cid in ids:
            d = res.get(cid)
            if d is None:
                st["missing"] += 1
                continue
            bad = [k for k in KEYS if d.get(k) != ref.get(k)]
            if "CRASH" in d and "CRASH" not in ref:
                bad.append("CRASH")
            st["variants"] += 1
            if bad:
                st["variant-differs"] += 1
                nviol += 1
                found = True
                if nviol <= 5:
                    chk.violation("grow_%d.json" % nviol, {
                        "kind": "stale-pointer-or-capacity-dependent-result", "harness": "h_grow", "variant": cid.rsplit(".", 1)[1],
                        "differs_in": bad, "crash": d.get("CRASH"),
                        "lines": [byline[g + ".d"], byline[cid]],
                        "reference": {k: ref.get(k, "")[:600] for k in KEYS}, "variant_result": {k: d.get(k, "")[:600] for k in KEYS + ("CRASH",)},
                        "rules": [s for _, s in cases[int(g[1:])]["nss"]] if not replay else None,
                        "note": "re-run the two lines with VF_SHOW_STDERR=1 to see the sanitizer report of the child"})
    mine = {u for u in ubs if u.endswith("@arena.c") or u.endswith("@rules.c") or u.endswith("@stream.c")}
    found |= ac.known_ub(chk, PID, mine, findings)
    chk.cov.update({
        "evaluations": st["variants"], "distinct_nontrivial": len(nontrivial),
        "rule": "a rule set of the generated construct corpus compiled under one growth schedule (initial capacity c of the ladder, or every allocation moving "
                "its buffer) and compared with the default 1 MiB build; non-trivial = the rule set compiles, at least one rule matches on the generated buffers",
        "rule_sets": len(groups), "capacities": CAPS, "outcomes": dict(st), "construct_histogram": dict(feats),
        "ub_reports_elsewhere": sorted(ubs - mine),
        "samples": [{"line": lines[0][:600], "result": out[0][:600] if out else None}]})
    core.handle_broken_proof(chk, lres, found)
    chk.assumptions += ["the model's protocol hypothesis WF (registered slots hold null or a pointer into used bytes; no raw pointer is kept across an allocation) "
                        "is checked for the real compiler only on the generated corpus",
                        "under ASan realloc always moves; the always-move hook therefore relocates a buffer at every allocation"]
    return chk.finish("proof")
