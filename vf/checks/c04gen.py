"""C04 helper — seeded generator of typed condition trees, rule sets, buffers and externals."""
from vf.checks import c04lang as L
from vf.checks.c04lang import (I64MIN, I64MAX, SENT, RD_KINDS, SOPS, Reject, Budget, cfold_walk, true_matches,
                               eval_rules, depth, loop_depth)

PATTERNS = [b"a", b"b", b"ab", b"ba", b"aa", b"aba", b"abc", b"bca", b"cab", b"abab", b"xyz", b"zz", b"bb", b"cc"]
STRPOOL = [b"", b"a", b"ab", b"AB", b"abc", b"Abc", b"b", b"abcabc", b"xyz", b"ABCabc", b"bc", b"c"]
# operands that separate byte-exact sized-string semantics from C-string / signed-char shortcuts: embedded NUL, bytes >= 0x80,
# equal prefixes of different length, needles longer than the haystack
HARDPOOL = [b"ab\x00cd", b"ab\x00x", b"ab\x00", b"ab", b"\x00", b"\x00\x00", b"a\x00b", b"A\x00B", b"\xff", b"a\xff", b"a\x7f",
            b"a\x80", b"\x80", b"\xc4\x80", b"\xe4", b"\xc4", b"ab\x00cdab\x00x", b"x\x00ab\x00", b"cd", b"\x00cd", b"B\x00", b""]
REPOOL = [b"a", b"ab", b"abc", b"bc", b"B", b"xyz", b"cab"]
AROPS_I = ["add", "sub", "mul", "div", "mod", "band", "bor", "bxor", "shl", "shr"]
AROPS_F = ["add", "sub", "mul", "div"]
CMPS = ["eq", "neq", "lt", "le", "gt", "ge"]
MAXDEPTH = 6
MAXLOOPS = 4


class Case:
    """one generated case: externals, buffer, rules"""

    def __init__(self, r):
        self.r = r
        self.exts = {}            # name -> (type, value)
        self.needs_tests = False
        self.disabled = []        # positions of the rules switched off with yr_rule_disable after compiling
        self.buf = b""
        self.cuts = None
        self.rules = []           # list of Rule

    def blocks(self):
        if not self.cuts:
            return [(0, self.buf)]
        out, base = [], 0
        for c in self.cuts:
            out.append((base, self.buf[base:c]))
            base = c
        out.append((base, self.buf[base:]))
        return out

    def new_ext(self, ty, val):
        for n, (t, v) in self.exts.items():
            if t == ty and v == val and type(v) is type(val):
                return n
        n = "e%d" % len(self.exts)
        self.exts[n] = (ty, val)
        return n


class Rule:
    def __init__(self, name):
        self.name = name
        self.strs = []            # (identifier, pattern, matches)
        self.cond = None


class G:
    """generation context for one rule"""

    def __init__(self, case, rule, idx):
        self.c, self.r, self.rule, self.idx = case, case.r, rule, idx
        self.loops = []           # per depth: "i" / "s" (loop variable type) / "of"
        self.in_forof = False
        self.hard = None
        self.stringy = case.r.random() < 0.10      # a rule made mostly of string operators
        size = len(case.buf)
        self.offs = sorted({0, 1, 2, size - 1, size, size + 1, size - 2, size - 4, size - 3} |
                           {m[0] + d for s in rule.strs for m in s[2][:6] for d in (-1, 0, 1)} |
                           {c + d for c in (case.cuts or []) for d in (-1, 0, -2, -4)})

    # ---- helpers
    def ty(self, e):
        h = e[0]
        if h in ("int", "filesize", "count", "countin", "offset", "length", "read", "bnot"):
            return "i"
        if h == "neg":
            return e[2]
        if h == "ar":
            return e[4]
        if h == "flt":
            return "f"
        if h == "str":
            return "s"
        if h == "ext":
            t = self.c.exts[e[1]][0]
            return "b" if t == "b" else t
        if h == "var":
            return self.loops[e[1]]
        if h == "undef":
            self.c.needs_tests = True
            return e[1]
        return "b"

    def mod(self, ty):
        """a value provided by the `tests` module: a constant of the specification (defined or undefined)"""
        r = self.r
        self.c.needs_tests = True
        if r.random() < 0.4:
            return ("undef", ty, r.choice(L.MODUNDEF[ty]))
        alias = r.choice([a for a, p in L.MODPROBES.items() if p[1] == ty])
        self.c.exts[alias] = (ty, L.MODPROBES[alias][2])
        return ("ext", alias)

    def moditer(self, q, body_gen):
        """for .. in <module array / dictionary>: an enumeration whose items the module fixes"""
        r = self.r
        src = r.choice(list(L.MODITER))
        ity, items = L.MODITER[src]
        self.c.needs_tests = True
        dep = len(self.loops)
        self.loops.append(ity)
        body = self.as_body(body_gen())
        self.loops.pop()
        return ("forenum", q, list(items), body, ity, dep, True, src)

    def lit(self, v):
        """an integer expression whose value is v, not necessarily a compile-time constant"""
        r = self.r
        u = r.random()
        if v < 0 or u < 0.22:
            if v < 0 and v > -2 ** 40 and u < 0.3:
                return ("neg", ("int", -v), "i")
            return ("ext", self.c.new_ext("i", v))
        if u < 0.30 and 0 <= len(self.c.buf) - v <= 9:
            k = len(self.c.buf) - v
            return ("ar", "sub", ("filesize",), ("int", k), "i") if k else ("filesize",)
        if u < 0.36 and v > 9:
            return ("int", v, "hex")
        return ("int", v)

    def sref(self):
        """a string reference usable here, or None"""
        r = self.r
        if self.in_forof and r.random() < 0.6:
            return "cur"
        if self.rule.strs:
            return r.randrange(len(self.rule.strs))
        return "cur" if self.in_forof else None

    def strs_of(self, s):
        if s == "cur":
            return self.rule.strs[self.r.randrange(len(self.rule.strs))]
        return self.rule.strs[s]

    def int_value(self, purpose, s=None):
        r = self.r
        if purpose == "offset":
            if s is not None and r.random() < 0.6:
                ms = self.strs_of(s)[2]
                if ms:
                    return r.choice(ms)[0] + r.choice([0, 0, 0, -1, 1])
            return r.choice(self.offs) if r.random() < 0.85 else r.randint(-2, 70)
        if purpose == "index":
            n = len(self.strs_of(s)[2]) if s is not None else 2
            return r.choice([0, 1, 1, 1, 2, n, n, n + 1, -1, 3, 2 ** 32 + 1, 2 ** 32 + n])   # 2^32+k: an `int` index would wrap to k
        if purpose == "shift":
            return r.choice([-1, 0, 1, 2, 8, 31, 32, 62, 63, 64, 65, 1000, -64])
        if purpose == "count":
            return r.choice([0, 0, 1, 1, 2, 2, 3, 4, 5, -1])
        if purpose == "divisor":
            return r.choice([0, 0, 1, -1, -1, 2, 3, 7, -2, 256])
        u = r.random()
        if u < 0.55:
            return r.randint(-3, 12)
        if u < 0.8:
            return r.choice([255, 256, 65535, 65536, 2 ** 31 - 1, 2 ** 31, 2 ** 32 - 1, 2 ** 32, 127, 128, 1000, 97, 98, 0x6162, 0x6261])
        if u < 0.93:
            return r.choice([I64MAX, I64MIN, I64MAX - 1, I64MIN + 1, 2 ** 62, -2 ** 62, 3037000500, SENT + 1, SENT - 1])
        return r.randint(I64MIN, I64MAX)

    # ---- integer expressions
    def int_leaf(self, purpose="any", s=None):
        r = self.r
        u = r.random()
        if u < 0.50:
            return self.lit(self.int_value(purpose, s))
        if u < 0.58:
            return ("filesize",)
        if u < 0.61:
            return ("undef", "i")
        if u < 0.66:
            return self.mod("i")
        if u < 0.72:
            ivars = [k for k, t in enumerate(self.loops) if t == "i"]
            if ivars:
                return ("var", r.choice(ivars))
        sr = self.sref()
        if u < 0.80 and sr is not None:
            return ("count", sr)
        if u < 0.90 and sr is not None:
            i = self.int_value("index", sr if sr != "cur" else None)
            idx = ("int", 1, "short") if i == 1 and r.random() < 0.5 else self.lit(i)
            return (r.choice(["offset", "offset", "length"]), sr, idx)
        if r.random() < 0.12:
            return ("read", r.choice(list(RD_KINDS)), ("undef", "i") if r.random() < 0.5 else self.mod("i"))
        return ("read", r.choice(list(RD_KINDS)), self.lit(self.read_offset()))

    def read_offset(self):
        """mostly inside the buffer, biased to the last positions where the datum still fits / no longer fits"""
        r = self.r
        size = len(self.c.buf)
        u = r.random()
        if u < 0.45 and size > 0:
            return r.randrange(size)
        if u < 0.85:
            return r.choice([size - 1, size - 2, size - 3, size - 4, size, size - 5, 0, 1] + [c + d for c in (self.c.cuts or []) for d in (-1, -2, -4, 0, -3)])
        return self.int_value("offset")

    def gen_int(self, d, purpose="any", s=None):
        r = self.r
        if d <= 0 or r.random() < 0.30:
            return self.int_leaf(purpose, s)
        u = r.random()
        if u < 0.52:
            op = r.choice(AROPS_I)
            a = self.gen_int(d - 1)
            if op in ("shl", "shr"):
                b = self.gen_int(d - 1, "shift") if r.random() < 0.85 else self.gen_int(d - 1)
            elif op in ("div", "mod"):
                b = self.gen_int(d - 1, "divisor") if r.random() < 0.7 else self.gen_int(d - 1)
                if r.random() < 0.08:
                    a, b = ("ext", self.c.new_ext("i", I64MIN)), ("ext", self.c.new_ext("i", -1))
            else:
                b = self.gen_int(d - 1)
            return ("ar", op, a, b, "i")
        if u < 0.60:
            return ("neg", self.gen_int(d - 1), "i")
        if u < 0.68:
            return ("bnot", self.gen_int(d - 1))
        if u < 0.80:
            if r.random() < 0.6:
                return ("read", r.choice(list(RD_KINDS)), self.lit(self.read_offset()))
            return ("read", r.choice(list(RD_KINDS)), self.gen_int(d - 1, "offset"))
        sr = self.sref()
        if sr is None:
            return self.int_leaf(purpose, s)
        if u < 0.90:
            lo, hi = self.range_bounds(d - 1, sr)
            return ("countin", sr, lo, hi)
        return (r.choice(["offset", "length"]), sr, self.gen_int(d - 1, "index", sr if sr != "cur" else None))

    def range_bounds(self, d, s=None, small=False):
        r = self.r
        if small:
            a = r.choice([0, 1, 1, 1, 2, 3, -1])
            b = a + r.choice([0, 1, 2, 3, 4, -1, 5])
            if r.random() < 0.03:           # ranges ending at INT64_MAX (finding F45, repaired: regression coverage)
                b = I64MAX
                a = b - r.choice([0, 1, 2])
            lo, hi = self.lit(a), self.lit(b)
        else:
            lo = self.gen_int(d, "offset", s)
            hi = self.gen_int(d, "offset", s)
        if r.random() < 0.03:
            lo = ("undef", "i")
        if r.random() < 0.03:
            hi = ("undef", "i")
        return lo, hi

    # ---- floats, strings
    def gen_flt(self, d):
        r = self.r
        u = r.random()
        if d <= 0 or u < 0.45:
            v = r.random()
            if v < 0.5:
                return ("flt", r.randint(0, 40) / 8.0)
            if v < 0.75:
                return ("ext", self.c.new_ext("f", r.randint(-16, 40) / 8.0))
            if v < 0.84:
                return ("undef", "f")
            if v < 0.90:
                return self.mod("f")
            return ("flt", float(r.randint(0, 300)))
        if u < 0.55:
            return ("neg", self.gen_flt(d - 1), "f")
        op = r.choice(AROPS_F)
        a = self.gen_flt(d - 1) if r.random() < 0.7 else self.gen_int(d - 1, "count")
        if op == "div":
            b = ("flt", r.choice([0.5, 1.0, 2.0, 4.0, 0.25, 8.0]))
        else:
            b = self.gen_flt(d - 1) if (self.ty(a) == "i" or r.random() < 0.7) else self.gen_int(d - 1, "count")
        if r.random() < 0.5 and op != "div":
            a, b = b, a
        return ("ar", op, a, b, "f")

    def gen_str(self):
        r = self.r
        u = r.random()
        svars = [k for k, t in enumerate(self.loops) if t == "s"]
        if svars and u < 0.4:
            return ("var", r.choice(svars))
        if self.hard is None:
            self.hard = r.random() < 0.5          # one flavour per rule, so that both operands come from the same pool
        pool = HARDPOOL if self.hard else STRPOOL
        if u < 0.62:
            return ("str", r.choice(pool))
        if u < 0.85:
            v = r.choice(pool)
            if 0 in v:                             # externals are defined through a C-string API: no embedded NUL
                return ("str", v)
            return ("ext", self.c.new_ext("s", v))
        if u < 0.93:
            return self.mod("s")
        return ("undef", "s")

    def str_pair(self):
        """two string operands that are RELATED (one derived from the other): prefixes / suffixes / infixes, one byte
        changed (preferably after an embedded NUL or at a byte >= 0x80), case flipped, one byte longer, empty —
        the pairs on which byte-exact, length-aware semantics differs from every C-string shortcut"""
        r = self.r
        if r.random() < 0.30:
            return self.gen_str(), self.gen_str()
        base = bytearray(r.choice(HARDPOOL + STRPOOL + [b"ab\x00cdEF", b"\x00ab\x00ab", b"aB\xffcd\x00e", b"abcabcabd"]))
        n = len(base)
        t = r.choice(["same", "prefix", "prefix", "suffix", "infix", "change", "change", "change", "append", "case", "empty", "nulcut"])
        b = bytearray(base)
        if t == "prefix" and n:
            b = base[:r.randrange(n + 1)]
        elif t == "suffix" and n:
            b = base[r.randrange(n + 1):]
        elif t == "infix" and n:
            i = r.randrange(n + 1); j = r.randrange(i, n + 1); b = base[i:j]
        elif t == "change" and n:
            k = r.randrange(n)
            if 0 in base and r.random() < 0.6:
                k = min(n - 1, base.index(0) + r.choice([1, 1, 2, 0]))
            b[k] = r.choice([b[k] ^ 0x20, b[k] ^ 0x80, 0, 0xff, (b[k] + 1) & 255])
            if r.random() < 0.5:
                b = b[:k + 1]
        elif t == "append":
            b = base + bytes([r.choice([0, 0x61, 0xff])])
        elif t == "case":
            b = bytearray(bytes(base).swapcase())
        elif t == "empty":
            b = bytearray()
        elif t == "nulcut" and 0 in base:
            b = base[:base.index(0)]
        x, y = ("str", bytes(base)), ("str", bytes(b))
        if r.random() < 0.08:
            y = self.mod("s") if r.random() < 0.5 else ("undef", "s")
        if r.random() < 0.25 and 0 not in b:
            y = ("ext", self.c.new_ext("s", bytes(b)))
        return (x, y) if r.random() < 0.7 else (y, x)

    # ---- quantifiers and sets
    def quant(self, d, n):
        r = self.r
        u = r.random()
        if u < 0.60:
            return (r.choice(["all", "any", "none"]),)
        if u < 0.63:
            return ("num", ("undef", "i"))
        if u < 0.66:
            return ("num", ("read", "u8", self.lit(len(self.c.buf) + r.randint(0, 3))))
        v = r.choice([0, 1, 1, 2, 2, 3, n, n, n + 1, max(0, n - 1), -1])
        if u < 0.9 or d <= 0:
            return ("num", self.lit(v))
        return ("num", self.gen_int(min(d - 1, 1), "count"))

    def sset(self):
        """(form, indices): a string set as written and the strings it denotes (c04lang.set_indices: exact items denote one
        string, `p*` items every string whose identifier starts with p).  Identifiers may be prefixes of one another
        ($_a, $_ab, $_a1): an exact item `$_a` must not pull in `$_ab`."""
        r = self.r
        names = [s[0] for s in self.rule.strs]
        prefixes = sorted({n[:k] for n in names for k in range(2, len(n) + 1)})      # "$_", "$_a", "$_ab", ...
        u = r.random()
        shorts = [i for i, n in enumerate(names) if any(m != n and m.startswith(n) for m in names)]
        if shorts and r.random() < 0.5:
            # the item whose exact / prefix reading differ: alone, doubled, next to its extension, next to a wildcard
            k = r.choice(shorts)
            ext = r.choice([i for i, m in enumerate(names) if m != names[k] and m.startswith(names[k])])
            form = r.choice([[("id", k)], [("id", k)], [("id", k), ("id", ext)], [("id", ext), ("id", k)], [("id", k), ("id", k)],
                             [("id", k), ("wild", names[ext])], [("wild", names[ext]), ("id", k)]])
            return (form, L.set_indices(form, names))
        if u < 0.25:
            form = [("them",)]
        elif u < 0.31:
            form = [("all",)]
        elif u < 0.48:
            form = [("wild", r.choice(prefixes))]
        else:
            form = [("id", r.randrange(len(names))) for _ in range(r.choice([1, 1, 1, 2, 2, 3]))]
            if r.random() < 0.35:
                form.insert(r.randrange(len(form) + 1), ("wild", r.choice(prefixes)))
            if r.random() < 0.06:
                form.insert(r.randrange(len(form) + 1), ("them",))
        idx = L.set_indices(form, names)
        if not idx:
            return ([("them",)], list(range(len(names))))
        return (form, idx)

    def rset(self):
        r = self.r
        k = self.idx
        rnames = [ru.name for ru in self.c.rules[:k]]
        # a wildcard rule set forbids later rules whose names match it: only the last rule uses them
        if self.rule.name == "rz" and r.random() < 0.45:
            prefixes = sorted({n[:j] for n in rnames for j in range(2, len(n) + 1)})       # not "r": it would match rz itself
            form = [("wild", r.choice(prefixes))]
            if r.random() < 0.4:
                form.insert(r.randrange(2), ("id", r.randrange(k)))
            return (form, L.set_indices(form, rnames))
        ids = [r.randrange(k) for _ in range(r.choice([1, 1, 2, 2, 3]))]
        return ([("id", i) for i in ids], ids)

    # ---- boolean expressions
    def bool_leaf(self):
        r = self.r
        u = r.random()
        sr = self.sref()
        if u < 0.16 and sr is not None:
            return self.tight(sr)
        if u < 0.40 and sr is not None:
            return ("found", sr)
        if u < 0.60 and sr is not None:
            return ("foundat", sr, self.lit(self.int_value("offset", sr)))
        if u < 0.68:
            return ("ext", self.c.new_ext("b", r.choice([True, False])))
        if u < 0.78 and self.idx > 0:
            return ("ruleref", r.randrange(self.idx))
        if u < 0.84:
            return (r.choice(["tt", "ff"]),)
        return ("cmp", r.choice(CMPS), self.int_leaf(), self.int_leaf(), "i")

    def tight(self, sr):
        """a comparison of a match-derived quantity with (nearly) its true value: sensitive to every slip in the
        match-list opcodes (#, @, !, `in`)"""
        r = self.r
        ms = self.strs_of(sr)[2] if sr != "cur" else []
        n = len(ms)
        i = r.choice([1, 1, n, n, max(1, n // 2), n + 1, 0]) if n else r.choice([0, 1])
        idx = ("int", 1, "short") if i == 1 and r.random() < 0.4 else self.lit(i)
        m = ms[i - 1] if 1 <= i <= n else (r.randint(0, 9), r.randint(1, 4))
        d = r.choice([0, 0, 0, 1, -1])
        v = r.random()
        if v < 0.30:
            return ("cmp", r.choice(["eq", "eq", "neq", "le", "ge"]), ("length", sr, idx), self.lit(m[1] + d), "i")
        if v < 0.55:
            return ("cmp", r.choice(["eq", "eq", "neq", "lt", "ge"]), ("offset", sr, idx), self.lit(m[0] + d), "i")
        if v < 0.70:
            return ("cmp", "eq", ("ar", "add", ("offset", sr, idx), ("length", sr, idx), "i"), self.lit(m[0] + m[1] + d), "i")
        if v < 0.85:
            return ("cmp", r.choice(["eq", "eq", "neq", "gt"]), ("count", sr), self.lit(n + d), "i")
        lo = m[0] + r.choice([0, 0, 1, -1])
        hi = lo + r.choice([0, 1, m[1], 600])
        k = sum(1 for x in ms if lo <= x[0] <= hi)
        return ("cmp", "eq", ("countin", sr, self.lit(lo), self.lit(hi)), self.lit(k + r.choice([0, 0, 1])), "i")

    def as_body(self, e):
        """loop bodies of any type: integer / string valued bodies and `or` with an integer left operand count once
        when true (finding F43, repaired: regression coverage); half of them are wrapped into a boolean"""
        t = self.ty(e)
        if self.r.random() < 0.5:
            return e
        if t == "i":
            return ("cmp", "neq", e, ("int", 0), "i")
        if t == "s" or not self.vm_boolish(e):
            return ("not", ("not", e))
        return e

    def vm_boolish(self, e):
        """is the VM value of this boolean-position expression always 0/1/undefined?  (`a or b` leaves a's raw
        value on the stack when a is true: the short-circuit jump skips OP_OR)"""
        if e[0] == "or":
            return self.vm_boolish(e[1])
        return self.ty(e) != "i"

    def gen_nest(self, k):
        """k nested loops whose innermost body uses every loop variable (variable frames of all depths)"""
        r = self.r
        dep = len(self.loops)
        if k == 0:
            ivars = [j for j, t in enumerate(self.loops) if t == "i"]
            svars = [j for j, t in enumerate(self.loops) if t == "s"]
            terms = []
            if ivars:
                e = ("var", ivars[0])
                for j in ivars[1:]:
                    e = ("ar", r.choice(["add", "add", "sub", "mul", "bxor"]), e, ("var", j), "i")
                sr = self.sref()
                v = r.random()
                if sr is not None and v < 0.3:
                    terms.append(("foundat", sr, e))
                elif sr is not None and v < 0.5:
                    terms.append(("cmp", r.choice(CMPS), ("offset", sr, ("var", r.choice(ivars))), e, "i"))
                else:
                    terms.append(("cmp", r.choice(CMPS), e, self.lit(r.randint(0, 9)), "i"))
                if len(ivars) > 1 and r.random() < 0.5:
                    terms.append(("cmp", r.choice(CMPS), ("var", ivars[-1]), ("var", r.choice(ivars[:-1])), "i"))
            for j in svars:
                terms.append(("sop", r.choice(SOPS), r.choice([("str", b"abcab"), ("ext", self.c.new_ext("s", b"xabc"))]), ("var", j)))
            if self.in_forof:
                terms.append(r.choice([("found", "cur"), ("cmp", "ge", ("count", "cur"), self.lit(r.randint(0, 2)), "i")]))
            if not terms:
                terms.append(self.bool_leaf())
            e = terms[0]
            for t in terms[1:]:
                e = (r.choice(["and", "or"]), e, t)
            return e
        v = r.random()
        q = self.quant(0, 3)
        if v < 0.45:
            a = r.choice([0, 1, 1, 2])
            lo, hi = self.lit(a), self.lit(a + r.choice([0, 1, 2, 3]))
            self.loops.append("i")
            body = self.as_body(self.gen_nest(k - 1))
            self.loops.pop()
            return ("forrange", q, lo, hi, body, dep, True)
        if v < 0.52:
            return self.moditer(q, lambda: self.gen_nest(k - 1))
        if v < 0.85 or not self.rule.strs or self.in_forof:
            ity = "s" if r.random() < 0.25 else "i"
            n = r.choice([1, 2, 3])
            items = [self.lit(r.randint(0, 4)) for _ in range(n)] if ity == "i" else [("str", r.choice(HARDPOOL if self.hard else STRPOOL)) for _ in range(n)]
            self.loops.append(ity)
            body = self.as_body(self.gen_nest(k - 1))
            self.loops.pop()
            return ("forenum", q, items, body, ity, dep, True)
        st = self.sset()
        self.loops.append("of")
        self.in_forof = True
        body = self.as_body(self.gen_nest(k - 1))
        self.in_forof = False
        self.loops.pop()
        return ("forof", q, st, body, True)

    def gen_bool(self, d):
        r = self.r
        if d >= 2 and not self.loops and r.random() < 0.05:
            return self.gen_nest(r.choice([2, 3, 3, 4, 4]))
        if d <= 0 or r.random() < 0.12:
            return self.bool_leaf()
        if self.loops and len(self.loops) < MAXLOOPS and r.random() < 0.22:
            return self.gen_loop(d)
        u = r.random()
        if self.stringy and r.random() < 0.6:
            u = 0.2 if u < 0.5 else 0.52 + (u - 0.5) * 0.22            # and/or over string comparisons, string operators, matches
        has_strs = bool(self.rule.strs)
        if u <= 0.20:
            return (r.choice(["and", "or"]), self.gen_bool(d - 1), self.gen_bool(d - 1))
        if u < 0.27:
            return ("not", self.gen_bool(d - 1))
        if u < 0.32:
            v = r.random()
            x = self.gen_bool(d - 1) if v < 0.3 else self.gen_int(d - 1) if v < 0.75 else self.gen_str() if v < 0.85 else self.gen_flt(d - 1)
            if self.ty(x) == "f":
                x = ("cmp", r.choice(CMPS), x, self.gen_flt(0), "f")
            return ("defined", x)
        if u < 0.46:
            a = self.gen_int(d - 1)
            b = self.gen_int(d - 1)
            return ("cmp", r.choice(CMPS), a, b, "i")
        if u < 0.52:
            a = self.gen_flt(d - 1)
            b = self.gen_flt(d - 1) if r.random() < 0.6 else self.gen_int(d - 1, "count")
            if self.ty(a) == "i" and self.ty(b) == "i":
                b = ("flt", 1.5)
            if r.random() < 0.5:
                a, b = b, a
            op = "lt" if r.random() < 0.3 else r.choice(CMPS)
            return ("cmp", op, a, b, "f")
        if u < 0.56:
            a, b = self.str_pair()
            return ("cmp", r.choice(CMPS), a, b, "s")
        if u < 0.61:
            a, b = self.str_pair()
            return ("sop", r.choice(SOPS), a, b)
        if u < 0.63:
            return ("matches", self.gen_str(), r.choice(REPOOL), r.random() < 0.4)
        if u < 0.66:
            x = self.gen_int(d - 1) if r.random() < 0.8 else self.gen_str()
            return x                                   # integer / string in boolean position
        sr = self.sref()
        if u < 0.74 and sr is not None:
            if r.random() < 0.5:
                return ("foundat", sr, self.gen_int(d - 1, "offset", sr))
            lo, hi = self.range_bounds(d - 1, sr)
            return ("foundin", sr, lo, hi)
        if u < 0.83 and has_strs:
            st = self.sset()
            q = self.quant(d - 1, len(st[1]))
            v = r.random()
            if v < 0.45:
                return ("of", q, st)
            if v < 0.70:
                lo, hi = self.range_bounds(min(d - 1, 1))
                return ("ofin", q, st, lo, hi)
            if v < 0.85:
                return ("ofat", q, st, self.gen_int(min(d - 1, 1), "offset", st[1][0]))
            p = r.choice([1, 50, 100, 33, 34, 66, 67, 25, 75, 51, 99, 0, 101, -1, 20, 40, 60, 80])
            if r.random() < 0.12:
                return ("pct", r.choice([("undef", "i"), self.mod("i"), ("read", "u8", self.lit(len(self.c.buf) + 1))]), st)
            return ("pct", self.lit(p) if p in (0, 101, -1) or r.random() < 0.5 else ("int", p), st)
        if u < 0.86 and self.idx > 0:
            st = self.rset()
            if r.random() < 0.75:
                return ("ofrules", self.quant(d - 1, len(st[1])), st)
            return ("pctrules", ("int", r.choice([1, 50, 100, 34, 67])), st)
        if len(self.loops) < MAXLOOPS:
            return self.gen_loop(d)
        return self.bool_leaf()

    def gen_loop(self, d):
        r = self.r
        has_strs = bool(self.rule.strs)
        if True:
            v = r.random()
            dep = len(self.loops)
            if v < 0.40:
                n_guess = 3
                q = self.quant(d - 1, n_guess)
                if r.random() < 0.7:
                    lo, hi = self.range_bounds(0, small=True)
                else:
                    sr2 = self.sref()
                    lo, hi = self.lit(1), (("count", sr2) if sr2 is not None else self.lit(3))
                self.loops.append("i")
                body = self.as_body(self.gen_bool(d - 1))
                self.loops.pop()
                return ("forrange", q, lo, hi, body, dep, True)
            if v < 0.42:
                return self.moditer(self.quant(d - 1, 3), lambda: self.gen_bool(d - 1))
            if v < 0.65:
                ity = "s" if r.random() < 0.3 else "i"
                n = r.choice([1, 2, 2, 3, 4])
                if ity == "i":
                    items = [self.gen_int(min(d - 1, 1), r.choice(["index", "offset", "any"])) for _ in range(n)]
                else:
                    items = [self.gen_str() for _ in range(n)]
                    items = [x if x[0] != "var" else ("str", b"ab") for x in items]
                q = self.quant(d - 1, n)
                self.loops.append(ity)
                body = self.as_body(self.gen_bool(d - 1))
                self.loops.pop()
                return ("forenum", q, items, body, ity, dep, True)
            if has_strs and not self.in_forof:
                st = self.sset()
                q = self.quant(d - 1, len(st[1]))
                self.loops.append("of")
                self.in_forof = True
                body = self.as_body(self.gen_bool(d - 1))
                self.in_forof = False
                self.loops.pop()
                return ("forof", q, st, body, True)
        return self.bool_leaf()


def gen_buffer(r, patterns):
    size = r.choice([0, 1, 2, 3, 4, 5, 6, 7, 8, 9, 12, 16, 17, 24, 31, 32, 33, 40, 48, 63, 64])
    out = bytearray()
    while len(out) < size:
        u = r.random()
        if u < 0.45 and patterns:
            out += r.choice(patterns)
        elif u < 0.70:
            out += bytes([r.choice(b"abc_")])
        elif u < 0.85:
            out += r.choice(PATTERNS)
        else:
            out += bytes([r.randrange(256)])
    return bytes(out[:size])


LONG_KS = [1, 2, 300, 508, 509, 510, 511, 512, 513, 600, 700, 900, 1021, 1022]


def special_strings(r):
    """-> (buffer, [(declaration text, true matches)]) : strings whose matches are long (beyond the 512 bytes of match
    data that are kept) or numerous; the declarations are chosen so that the match set is unambiguous:
      /XY+Z/  : at each X followed by k >= 1 Y and a Z, one match of length k + 2 (k + 2 <= YR_RE_SCAN_LIMIT);
      { P Q Q [lo-hi] Q Q R } : one head and one tail in the buffer, match = head .. tail;
      "a" in a run of 'a' : one match per position."""
    u = r.random()
    fill = lambda n: bytes(r.choice(b"._xyz") for _ in range(n))
    if u < 0.45:
        X, Y, Z = r.sample(list(b"ABCDEFG"), 3)
        buf, ms = bytearray(fill(r.choice([0, 1, 2, 7]))), []
        for k in [r.choice(LONG_KS) for _ in range(r.choice([1, 1, 2, 3]))]:
            ms.append((len(buf), k + 2))
            buf += bytes([X]) + bytes([Y]) * k + bytes([Z]) + fill(r.choice([0, 1, 3]))
        return bytes(buf), [("/%c%c+%c/" % (X, Y, Z), ms)]
    if u < 0.75:
        P, Q, R = r.sample(list(b"PQRSTUV"), 3)
        lo, hi = r.choice([(600, 800), (510, 520), (300, 700)])
        g = r.choice([lo, hi, (lo + hi) // 2, lo + 1, hi - 1])
        pre = fill(r.choice([0, 2, 5]))
        buf = pre + bytes([P, Q, Q]) + fill(g) + bytes([Q, Q, R]) + fill(r.choice([0, 3]))
        decl = "{ %02X %02X %02X [%d-%d] %02X %02X %02X }" % (P, Q, Q, lo, hi, Q, Q, R)
        return buf, [(decl, [(len(pre), g + 6)])]
    n = r.choice([255, 256, 257, 300, 1000, 1100])
    pre = fill(r.choice([0, 1, 4]))
    buf = pre + b"a" * n + fill(r.choice([0, 2]))
    out = [(b"a", [(len(pre) + i, 1) for i in range(n)])]
    if r.random() < 0.5:
        out.append((b"aa", [(len(pre) + i, 2) for i in range(n - 1)]))
    return buf, out


# identifiers that are proper prefixes of one another: an exact set item ($_a, ra) must not denote the longer ones ($_ab, rab)
SFAMILY = ["$_a", "$_ab", "$_abc", "$_a1", "$_b", "$_ba", "$_b1", "$_a_"]
RFAMILY = ["ra", "rab", "rabc", "ra1", "rb", "rba"]


def gen_case(r, maxdepth=MAXDEPTH):
    """-> Case with rules whose conditions are expected to compile; retried internally"""
    for _ in range(200):
        c = Case(r)
        nrules = r.choice([1, 1, 1, 1, 2, 2, 2, 3, 3, 4])
        pats_all = []
        plan = []
        special = None
        if r.random() < 0.10:
            sbuf, special = special_strings(r)
        for k in range(nrules):
            ns = r.choice([0, 1, 1, 2, 2, 3, 3, 4])
            pats = [r.choice(PATTERNS) for _ in range(ns)]
            plan.append(pats)
            pats_all += pats
        if special:
            c.buf = sbuf
            plan = [pats[:2] for pats in plan]
            plan[-1] = plan[-1][:1] + [sp for sp in special]
        else:
            c.buf = gen_buffer(r, pats_all)
        if len(c.buf) >= 4 and r.random() < 0.12 and not special:
            c.cuts = sorted(set(r.randrange(1, len(c.buf)) for _ in range(r.choice([1, 1, 2]))))
        blocks = c.blocks()
        rnames = r.sample(RFAMILY, nrules) if r.random() < 0.45 else ["ra%d" % k for k in range(nrules)]
        try:
            for k, pats in enumerate(plan):
                rule = Rule("rz" if k == nrules - 1 else rnames[k])
                cnt = {"a": 0, "b": 0}
                family = r.sample(SFAMILY, len(pats)) if r.random() < 0.45 else None      # identifiers that are prefixes of one another
                for j, p in enumerate(pats):
                    pre = r.choice("ab")
                    cnt[pre] += 1
                    ident = family[j] if family else "$_%s%d" % (pre, cnt[pre])
                    if isinstance(p, tuple):        # special string: (declaration, true matches)
                        decl, ms = p
                        rule.strs.append((ident, decl, ms if isinstance(decl, str) else true_matches(decl, blocks)))
                    else:
                        rule.strs.append((ident, p, true_matches(p, blocks)))
                g = G(c, rule, k)
                d = r.choice([1, 2, 3, 3, 4, 4, 5, maxdepth])
                cond = g.gen_bool(d)
                if depth(cond) > maxdepth + 2 or loop_depth(cond) > MAXLOOPS:
                    raise Reject("too deep")
                cfold_walk(cond)
                rule.cond = cond
                c.rules.append(rule)
            if nrules > 1 and r.random() < 0.12:          # the API dimension: some rules are disabled before the scan
                c.disabled = sorted(r.sample(range(nrules), r.choice([1, 1, 2]) if nrules > 2 else 1))
            c.spec, c.stats, c.events = eval_rules([([s[2] for s in ru.strs], ru.cond) for ru in c.rules], blocks, len(c.buf), c.exts, (), c.disabled)
            return c
        except (Reject, Budget, ZeroDivisionError, OverflowError):
            continue
    raise RuntimeError("generator failed to produce a case")
