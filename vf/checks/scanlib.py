"""Shared generator pieces of C10 / C13: rule sets in a small condition language (emitted both as YARA source for the
harness and as RPN for the Lean model), inputs with block partitions, and the per-block facts the model's abstract
parameters are instantiated with (computed here, independently of libyara: literal search, PE/ELF header fields,
entry-point offsets as in exefiles.c, md5 of ranges)."""
import hashlib, os, struct

MODS = {"pe": 0, "elf": 1, "hash": 2}
MOD_FIELD = {"pe": "pe.entry_point_raw", "elf": "elf.machine"}


def hx(b):
    return b.hex() if b else "-"


# ------------------------------------------------------------------------------------------------ executable headers

def u16(b, o): return struct.unpack_from("<H", b, o)[0]
def u32(b, o): return struct.unpack_from("<I", b, o)[0]
def u64(b, o): return struct.unpack_from("<Q", b, o)[0]


def exe_pe_header(b):
    """exefiles.c yr_get_pe_header: offset of the NT headers or None"""
    if len(b) < 64 or u16(b, 0) != 0x5A4D:
        return None
    lfanew = struct.unpack_from("<i", b, 60)[0]
    if lfanew < 0:
        return None
    hs = lfanew + 4 + 20
    if len(b) < hs:
        return None
    hs += 224
    if u32(b, lfanew) == 0x4550 and u16(b, lfanew + 4) in (0x14C, 0x8664) and len(b) > hs:
        return lfanew
    return None


def exe_pe_rva_to_offset(b, pe, rva):
    blen = len(b) - pe
    nsec = min(u16(b, pe + 6), 60)
    sec = pe + 24 + u16(b, pe + 20)
    s_rva = s_off = 0
    for _ in range(nsec):
        if (sec - pe) + 40 < blen:
            va = u32(b, sec + 12)
            if rva >= va and s_rva <= va:
                s_rva, s_off = va, u32(b, sec + 20)
            sec += 40
        else:
            return 0
    return (s_off + (rva - s_rva)) & 0xFFFFFFFFFFFFFFFF


def exe_elf_rva_to_offset(b, bits, rva):
    ET_EXEC = 2
    if bits == 32:
        typ, ph_off, sh_off = u16(b, 16), u32(b, 28), u32(b, 32)
        ph_n, sh_n = u16(b, 44), u16(b, 48)
        ph_sz, sh_sz = 32, 40
    else:
        typ, ph_off, sh_off = u16(b, 16), u64(b, 32), u64(b, 40)
        ph_n, sh_n = u16(b, 56), u16(b, 60)
        ph_sz, sh_sz = 56, 64
    if typ == ET_EXEC:
        if ph_off == 0 or ph_n == 0:
            return 0
        if ph_off + ph_sz * ph_n > len(b):
            return 0
        for i in range(ph_n):
            p = ph_off + i * ph_sz
            if bits == 32:
                off, va, msz = u32(b, p + 4), u32(b, p + 8), u32(b, p + 20)
                end = (va + msz) & 0xFFFFFFFF
            else:
                off, va, msz = u64(b, p + 8), u64(b, p + 16), u64(b, p + 40)
                end = (va + msz) & 0xFFFFFFFFFFFFFFFF
            if va <= rva < end:
                return off + (rva - va)
    else:
        if sh_off == 0 or sh_n == 0:
            return 0
        if sh_off + sh_sz * sh_n > len(b):
            return 0
        for i in range(sh_n):
            p = sh_off + i * sh_sz
            if bits == 32:
                typ_, addr, off, size = u32(b, p + 4), u32(b, p + 12), u32(b, p + 16), u32(b, p + 20)
                end = (addr + size) & 0xFFFFFFFF
            else:
                typ_, addr, off, size = u32(b, p + 4), u64(b, p + 16), u64(b, p + 24), u64(b, p + 32)
                end = (addr + size) & 0xFFFFFFFFFFFFFFFF
            if typ_ not in (0, 8) and addr <= rva < end:
                return (off + (rva - addr)) & 0xFFFFFFFFFFFFFFFF
    return 0


def entry_point_offset(b):
    """exefiles.c yr_get_entry_point_offset; None = YR_UNDEFINED"""
    pe = exe_pe_header(b)
    if pe is not None:
        return exe_pe_rva_to_offset(b, pe, u32(b, pe + 40))
    if len(b) >= 16 and u32(b, 0) == 0x464C457F:
        if b[4] == 1 and len(b) >= 52:
            return exe_elf_rva_to_offset(b, 32, u32(b, 24))
        if b[4] == 2 and len(b) >= 64:
            return exe_elf_rva_to_offset(b, 64, u64(b, 24))
    return None


def entry_point_address(b, base):
    """exefiles.c yr_get_entry_point_address (SCAN_FLAGS_PROCESS_MEMORY); None = YR_UNDEFINED"""
    pe = exe_pe_header(b)
    if pe is not None and not (u16(b, pe + 22) & 0x2000):
        return base + u32(b, pe + 40)
    if len(b) >= 16 and u32(b, 0) == 0x464C457F:
        if b[4] == 1 and len(b) >= 52 and u16(b, 16) == 2:
            return base + u32(b, 24)
        if b[4] == 2 and len(b) >= 64 and u16(b, 16) == 2:
            return base + u64(b, 24)
    return None


def pe_module_field_pm(b):
    """pe module with SCAN_FLAGS_PROCESS_MEMORY: DLLs are skipped"""
    v = pe_module_field(b)
    if v is None:
        return None
    lfanew = struct.unpack_from("<i", b, 60)[0]
    return None if u16(b, lfanew + 22) & 0x2000 else v


def elf_module_field_pm(b):
    """elf module with SCAN_FLAGS_PROCESS_MEMORY: only ET_EXEC is parsed"""
    v = elf_module_field(b)
    if v is None:
        return None
    typ = u16(b, 16) if b[5] == 1 else struct.unpack_from(">H", b, 16)[0]
    return v if typ == 2 else None


def pe_module_field(b):
    """pe module accepts the block (pe_utils.c pe_get_header) -> pe.entry_point_raw, else None"""
    if len(b) < 64 or u16(b, 0) != 0x5A4D:
        return None
    lfanew = struct.unpack_from("<i", b, 60)[0]
    if lfanew < 0:
        return None
    hs = lfanew + 24
    if len(b) < hs or u32(b, lfanew) != 0x4550 or len(b) < hs + 224:
        return None
    hs += 240 if u16(b, lfanew + 24) == 0x20B else 224
    if len(b) < hs:
        return None
    return u32(b, lfanew + 40)


def elf_module_field(b):
    """elf module parses the block (class/data combination known and block larger than the header) -> elf.machine"""
    if len(b) < 16 or u32(b, 0) != 0x464C457F:
        return None
    cls, data = b[4], b[5]
    if cls == 1 and data in (1, 2) and len(b) > 52 or cls == 2 and data in (1, 2) and len(b) > 64:
        return u16(b, 18) if data == 1 else struct.unpack_from(">H", b, 18)[0]
    return None


def synth_pe(entry_rva=0x1010, body=b"", sec_rva=0x1000, raw=0x200):
    dos = bytearray(64); dos[0:2] = b"MZ"; struct.pack_into("<I", dos, 60, 64)
    fh = struct.pack("<IHHIIIHH", 0x4550, 0x14C, 1, 0, 0, 0, 224, 0x102)
    opt = bytearray(224); struct.pack_into("<H", opt, 0, 0x10B); struct.pack_into("<I", opt, 16, entry_rva)
    struct.pack_into("<I", opt, 28, 0x400000); struct.pack_into("<II", opt, 32, 0x1000, 0x200)
    struct.pack_into("<I", opt, 56, 0x3000); struct.pack_into("<I", opt, 60, 0x200); struct.pack_into("<H", opt, 68, 3)
    struct.pack_into("<I", opt, 92, 16)
    sec = bytearray(40); sec[0:5] = b".text"; struct.pack_into("<IIII", sec, 8, 0x100, sec_rva, 0x100, raw)
    struct.pack_into("<I", sec, 36, 0x60000020)
    hdr = bytes(dos) + fh + bytes(opt) + bytes(sec)
    return hdr + b"\x00" * (raw - len(hdr)) + body + b"\xcc" * max(0, 0x40 - len(body))


def synth_elf32(entry=0x8048054, body=b""):
    h = bytearray(52); h[0:4] = b"\x7fELF"; h[4] = 1; h[5] = 1; h[6] = 1
    struct.pack_into("<HHIIIIIHHHHHH", h, 16, 2, 3, 1, entry, 52, 0, 0, 52, 32, 1, 40, 0, 0)
    ph = struct.pack("<IIIIIIII", 1, 0, 0x8048000, 0x8048000, 0x200, 0x200, 5, 0x1000)
    return bytes(h) + ph + body + b"\x90" * max(0, 32 - len(body))


# ------------------------------------------------------------------------------------------------ string kinds

def find_literal(s, b):
    out, o = [], b.find(s)
    while o >= 0:
        out.append((o, len(s)))
        o = b.find(s, o + 1)
    return out


class Rx:
    """a regular-expression string of a fixed simple shape: literal prefix, ONE bounded repeat, literal suffix — for these
    the match at a given start offset is unique or Python's greedy result is the longest one, which is what yara reports"""

    def __init__(self, src, pysrc=None):
        import re
        self.src = src
        # lookahead: every start offset, overlaps included; no DOTALL: without /s yara's '.' does not match a newline either
        self.re = re.compile(b"(?=(" + (pysrc or src).encode() + b"))")

    def findall(self, b):
        return [(m.start(), len(m.group(1))) for m in self.re.finditer(b)]


def yr_isalnum(x):
    return 0x30 <= x <= 0x39 or 0x41 <= x <= 0x5A or 0x61 <= x <= 0x7A


class Fullword:
    """`"text" fullword` / `/re/ fullword` (non-wide): an occurrence counts only if the bytes just before and just after it — INSIDE the
    scanned block; the block's ends are delimiters — are not alphanumeric"""

    def __init__(self, inner):
        self.inner = inner            # bytes (printable, no quotes) or Rx

    def findall(self, b):
        return [(o, ln) for o, ln in str_findall(self.inner, b)
                if not (o >= 1 and yr_isalnum(b[o - 1])) and not (o + ln < len(b) and yr_isalnum(b[o + ln]))]

    def src(self):
        return ('"%s"' % self.inner.decode() if isinstance(self.inner, (bytes, bytearray)) else "/%s/" % self.inner.src) + " fullword"


class HexJump(Rx):
    """hex string with a small jump, e.g. { 41 42 [0-4] 43 44 }: verified by yr_re_fast_exec, which keeps its candidate positions in
    nodes recycled through the scanner's position pool; the shortest match at every start offset is reported"""

    def __init__(self, head, lo, hi, tail):
        import re
        self.hexsrc = "{ %s [%d-%d] %s }" % (" ".join("%02x" % x for x in head), lo, hi, " ".join("%02x" % x for x in tail))
        self.src = None
        self.re = re.compile(b"(?=(" + re.escape(head) + (b"[\\s\\S]{%d,%d}?" % (lo, hi)) + re.escape(tail) + b"))", re.S)


class HexAlt(Rx):
    """hex string with an alternative AND a bounded jump, e.g. { 73 74 61 ( 72 | 52 ) 74 [4-8] 65 6e 64 }: not a "fast" hex string, it is
    verified by the regexp engine (fibers with repeat counters from the scanner's pool); jumps are non-greedy and match any byte"""

    def __init__(self, pre, alts, post, lo, hi, tail):
        import re
        hx2 = lambda bs: " ".join("%02x" % x for x in bs)
        self.hexsrc = "{ %s ( %s ) %s [%d-%d] %s }" % (hx2(pre), " | ".join("%02x" % a for a in alts), hx2(post), lo, hi, hx2(tail))
        self.src = None
        self.re = re.compile(b"(?=(" + re.escape(pre) + b"[" + b"".join(re.escape(bytes([a])) for a in alts) + b"]" + re.escape(post) +
                             (b"[\\s\\S]{%d,%d}?" % (lo, hi)) + re.escape(tail) + b"))", re.S)


class Bomb:
    """/(c{1,40}){1,40}d/ : on a long run of 'c' the regexp engine needs more than RE_MAX_FIBERS fibers and the scan fails
    with ERROR_TOO_MANY_RE_FIBERS. Matches are computed analytically (c^k d, 1 <= k <= 1600, at every start inside the run)."""
    src = "(c{1,40}){1,40}d"
    ERR = 46
    SAFE, SURE = 6, 3000     # runs up to SAFE never fail, runs from SURE always do; nothing in between is generated

    def findall(self, b):
        out = []
        o = b.find(b"d")
        while o >= 0:
            k = 0
            while o - k - 1 >= 0 and b[o - k - 1] == 0x63 and k < 1600:
                k += 1
                out.append((o - k, k + 1))
            o = b.find(b"d", o + 1)
        return sorted(out)

    @staticmethod
    def longest_run(b):
        import re
        return max((len(m.group(0)) for m in re.finditer(b"c+", b)), default=0)


class Chain:
    """a hex string that the compiler splits into a chain of pieces (at `[-]` or a jump of >= 200 bytes): it occupies one string
    index per piece; conditions refer to the first (head) index"""

    def __init__(self, pieces, gaps):
        assert len(gaps) == len(pieces) - 1
        self.pieces, self.gaps = pieces, gaps

    def src(self):
        out = [" ".join("%02x" % x for x in self.pieces[0])]
        for g, p in zip(self.gaps, self.pieces[1:]):
            out.append("[-]" if g[1] is None else "[%d-%d]" % g)
            out.append(" ".join("%02x" % x for x in p))
        return "{ %s }" % " ".join(out)


def nidx(s):
    return len(s.pieces) if isinstance(s, Chain) else 1


def str_findall(s, b):
    return find_literal(s, b) if isinstance(s, (bytes, bytearray)) else s.findall(b)


def str_src(s):
    if isinstance(s, Chain):
        return s.src()
    if isinstance(s, (HexJump, HexAlt)):
        return s.hexsrc
    if isinstance(s, Fullword):
        return s.src()
    if isinstance(s, (bytes, bytearray)):
        return "{ %s }" % " ".join("%02x" % x for x in s)
    return "/%s/" % s.src


# ------------------------------------------------------------------------------------------------ rule sets

class RuleSet:
    """rules: list of dict(ns=<int>, flags=<subset of 'gp'>, strings=[bytes,...], cond=<tuple AST>); strings are referred
    to in conditions by their GLOBAL index (declaration order over the whole set)."""

    def __init__(self, rules, imports, nsnames=None):
        self.rules, self.imports = rules, imports
        self.nsnames = nsnames or ["default"] + ["n%d" % i for i in range(1, 1 + max(r["ns"] for r in rules))]
        k = 0
        for r in rules:
            r["sidx"], r["sidx_all"] = [], []
            for st in r["strings"]:
                r["sidx"].append(k)                       # index of the declared string (= of its head piece)
                r["sidx_all"] += list(range(k, k + nidx(st)))
                k += nidx(st)
        self.nstrings = k
        self.noreq = None     # filled from the compiled rules (harness --describe)
        self.fixed = []       # per string: offset if the compiler marked it STRING_FLAGS_FIXED_OFFSET (only used as "$s at N")
        # rules must be grouped by namespace in increasing order (compiled in that order)
        assert [r["ns"] for r in rules] == sorted(r["ns"] for r in rules)

    def all_strings(self):
        """one entry per string INDEX: the pieces of a chained string are strings of their own"""
        out = []
        for r in self.rules:
            for s in r["strings"]:
                out += list(s.pieces) if isinstance(s, Chain) else [s]
        return out

    def expected_chain_idx(self):
        out, k = [], 0
        for r in self.rules:
            for s in r["strings"]:
                if isinstance(s, Chain):
                    out += list(range(k, k + nidx(s)))
                k += nidx(s)
        return out

    def conds(self, kind):
        out = []

        def walk(c):
            if c[0] == kind:
                out.append(c)
            for a in c[1:]:
                if isinstance(a, tuple):
                    walk(a)
        for r in self.rules:
            walk(r["cond"])
        return out

    # -- YARA source (sections per namespace are introduced by a marker the harness splits on)
    def cond_src(self, c):
        k = c[0]
        if k == "tt": return "true"
        if k == "ff": return "false"
        if k == "str": return "$s%d" % c[1]
        if k == "cnt": return "#s%d >= %d" % (c[1], c[2])
        if k == "at": return "$s%d at %d" % (c[1], c[2])
        if k == "fseq": return "filesize == %d" % c[1]
        if k == "fsge": return "filesize >= %d" % c[1]
        if k == "epdef": return "entrypoint >= 0"
        if k == "epeq": return "entrypoint == %d" % c[1]
        if k == "rd": return "uint%d(%d) == %d" % (8 * c[1], c[2], c[3])
        if k == "mod": return "%s == %d" % (MOD_FIELD[c[1]], c[2])
        if k == "hash": return 'hash.md5(%d, %d) == "%s"' % (c[1], c[2], c[3])
        if k == "ref": return "r%d" % c[1]
        if k == "in": return "$s%d in (%d..%d)" % (c[1], c[2], c[3])
        if k == "off": return "@s%d[%d] == %d" % (c[1], c[2], c[3])
        if k == "cin": return "#s%d in (%d..%d) == %d" % (c[1], c[2], c[3], c[4])
        if k == "len": return "!s%d[%d] == %d" % (c[1], c[2], c[3])
        if k == "ofat": return "%d of (%s) at %d" % (c[1], ",".join("$s%d" % x for x in c[3]), c[2])
        if k == "ofin": return "%d of (%s) in (%d..%d)" % (c[1], ",".join("$s%d" % x for x in c[4]), c[2], c[3])
        if k == "forat": return "for any of (%s) : ($ at %d)" % (",".join("$s%d" % x for x in c[2]), c[1])
        if k == "forin": return "for any of (%s) : ($ in (%d..%d))" % (",".join("$s%d" % x for x in c[3]), c[1], c[2])
        if k == "burn": return "for all i in (0..300) : (i >= 0)"
        if k == "not": return "not (%s)" % self.cond_src(c[1])
        if k in ("and", "or"): return "(%s) %s (%s)" % (self.cond_src(c[1]), k, self.cond_src(c[2]))
        raise ValueError(c)

    def source(self):
        out = []
        cur = None
        for i, r in enumerate(self.rules):
            if r["ns"] != cur:
                cur = r["ns"]
                out.append("//@ns %s" % self.nsnames[cur])
                out += ['import "%s"' % m for m in self.imports]     # first thing in the code: OP_IMPORT before any rule
            mods = ("global " if "g" in r["flags"] else "") + ("private " if "p" in r["flags"] else "")
            s = ""
            if r["strings"]:
                s = "strings: " + " ".join("$s%d = %s" % (gi, str_src(b)) for gi, b in zip(r["sidx"], r["strings"]))
            out.append("%srule r%d { %s condition: %s }" % (mods, i, s, self.cond_src(r["cond"])))
        return "\n".join(out) + "\n"

    # -- model encoding
    def cond_rpn(self, c):
        k = c[0]
        if k in ("tt", "ff", "epdef", "burn"): return [k]
        if k in ("str", "cnt", "at", "fseq", "fsge", "epeq", "rd", "ref", "in", "off", "cin", "len"):
            return [":".join([k] + [str(a) for a in c[1:]])]
        if k in ("ofat", "ofin", "forat", "forin"):
            return [":".join([k] + [str(a) for a in c[1:-1]] + ["+".join(map(str, c[-1]))])]
        if k == "mod": return ["mod:%d:%d" % (MODS[c[1]], c[2])]
        if k == "hash": return ["hash:%d:%d" % (c[1], c[2])]
        if k == "not": return self.cond_rpn(c[1]) + ["not"]
        if k in ("and", "or"): return self.cond_rpn(c[1]) + self.cond_rpn(c[2]) + [k]
        raise ValueError(c)

    def model_fields(self):
        rs = []
        for i, r in enumerate(self.rules):
            fl = r["flags"] + ("n" if self.noreq[i] else "")
            rs.append("%d,%s,%s,%s" % (r["ns"], fl or "-", "+".join(map(str, r["sidx_all"])) or "-", "~".join(self.cond_rpn(r["cond"]))))
        mi = "+".join(str(MODS[m]) for m in self.imports) or "-"
        ms = "+".join(str(i) for i, x in enumerate(getattr(self, "single", [])) if x) or "-"
        mc = ",".join("%d:%d:%d:%d:%d" % c for c in getattr(self, "chains", [])) or "-"
        return "mr=%s mi=%s ms=%s mc=%s" % (";".join(rs), mi, ms, mc)


class HarnessCrash(Exception):
    """the real code died (crash / sanitizer report / unexpected output) — a finding, not an infrastructure error"""

    def __init__(self, step, cmd, rc, stderr, case, source=None):
        Exception.__init__(self, "%s: rc=%s" % (step, rc))
        self.step, self.cmd, self.rc, self.stderr, self.case, self.source = step, cmd, rc, stderr, case, source

    def replay_obj(self, engine, harness):
        return {"kind": "harness-crash-or-sanitizer (%s)" % self.step, "rc": self.rc, "stderr": self.stderr[-3000:], "engine": engine,
                "harness": harness, "command": " ".join(self.cmd), "case": self.case, "yara_source": self.source}


def describe(harness_bin, rulesets, core):
    """Ask the compiled rules for the no_required_strings bit of every rule (a certificate read from YR_RULES)."""
    uniq = []
    seen = set()
    for rs in rulesets:
        if id(rs) not in seen:
            seen.add(id(rs)); uniq.append(rs)
    rulesets = uniq
    lines = ["d%d rs=%s" % (i, rs.source().encode().hex()) for i, rs in enumerate(rulesets)]
    cmd = [harness_bin, "--describe"]
    out, rc, err = core.run_parallel(cmd, lines)
    if rc != 0 or len(out) != len(lines):
        done = {l.split(" ", 1)[0] for l in out}
        k = min([i for i in range(len(lines)) if "d%d" % i not in done] or [0])   # a rule set without an answer (its process died)
        # a scan of the empty buffer with that rule set reproduces the compilation
        case = "crash rs=%s in=-~0 fl=0 to=0 ops=S/0/-/-/-/0 ep=0" % rulesets[k].source().encode().hex()
        raise HarnessCrash("compiling a rule set (describe)", cmd, rc, err, case, rulesets[k].source())
    for rs, l in zip(rulesets, out):
        f = dict(t.split("=", 1) for t in l.split()[1:])
        if int(f["nrules"]) != len(rs.rules) or int(f["nstrings"]) != rs.nstrings:
            raise HarnessCrash("compiled rule set has an unexpected shape: " + l, cmd, rc, err,
                               "crash rs=%s in=-~0 fl=0 to=0 ops=S/0/-/-/-/0 ep=0" % rs.source().encode().hex(), rs.source())
        rs.noreq = [c == "1" for c in f["noreq"]]
        rs.fixed = [None if x == "-" else int(x) for x in f["fixed"].split(",")] if f.get("fixed") else []
        rs.single = [c == "1" for c in f.get("single", "")]
        rs.chains = [tuple(int(x) for x in t.split(":")) for t in f.get("chain", "-").split(",") if t != "-"]
        if sorted(c[0] for c in rs.chains) != rs.expected_chain_idx():
            raise HarnessCrash("the compiler split the strings into chains differently than expected: " + l, cmd, rc, err,
                               "crash rs=%s in=-~0 fl=0 to=0 ops=S/0/-/-/-/0 ep=0" % rs.source().encode().hex(), rs.source())


# ------------------------------------------------------------------------------------------------ inputs and facts

def chain_matches(rs, b, base):
    """the chained strings reported for ONE block (independent port of scan.c _yr_scan_verify_chained_string_match; the pending
    pieces are per block since /repo 173a2ea): list of (absolute offset, head string index, length)"""
    info = {c[0]: c[1:] for c in getattr(rs, "chains", [])}      # idx -> (prev, gmin, gmax, tail)
    if not info:
        return []
    strs = rs.all_strings()
    cands = sorted((o, si, ln) for si in info for o, ln in str_findall(strs[si], b))
    unc = {si: [] for si in info}          # per piece: [off, len, clen], sorted by off, one entry per offset
    out = []
    SLACK = 1024 + 4

    def ok(ci, m, o):
        return m[0] + m[1] + ci[2] >= o and m[0] + m[1] + ci[1] <= o

    def ins(lst, m):
        if any(x[0] == m[0] for x in lst):
            return
        lst.append(m); lst.sort(key=lambda x: x[0])

    def update(si, m, n):             # _yr_scan_update_match_chain_length
        if m[2] == n:
            return
        m[2] = n
        prev = info[si][0]
        if prev < 0:
            return
        for mm in unc[prev]:
            if ok(info[si], mm, m[0]):
                update(prev, mm, n + 1)
    for o, si, ln in cands:
        prev, gmin, gmax, tail = info[si]
        if prev < 0:
            ins(unc[si], [o, ln, 0])
            continue
        lowest = unc[si][0][0] if unc[si] else o
        found = False
        keep = []
        lst = unc[prev]
        for i, m in enumerate(lst):
            if m[0] + m[1] + gmax + SLACK < lowest:
                continue
            if ok(info[si], m, o):
                found = True
                keep += lst[i:]
                break
            keep.append(m)
        unc[prev] = keep
        if not found:
            continue
        if tail:
            for m in unc[prev]:
                if ok(info[si], m, o):
                    update(prev, m, 1)
            h, full = si, 0
            while info[h][0] >= 0:
                h, full = info[h][0], full + 1
            done = [m for m in unc[h] if m[2] == full]
            unc[h] = [m for m in unc[h] if m[2] != full]
            for m in done:
                out.append((base + m[0], h, o - m[0] + ln))
        else:
            ins(unc[si], [o, ln, 0])
    return sorted(set(out))


class Input:
    """bytes + how an iterator hands them out: block sizes, availability (fetch_data NULL), and the base address reported for
    every block (default contiguous from 0; explicit `bases` model sparse address spaces)"""

    def __init__(self, data, parts=None, path=None, avail=None, bases=None):
        self.data, self.path = data, path
        self.parts = parts if parts else [len(data)]
        self.avail = avail if avail else [True] * len(self.parts)
        assert sum(self.parts) == len(data)
        cum = [sum(self.parts[:i]) for i in range(len(self.parts))]
        self.doff = cum
        self.bases = list(bases) if bases else cum
        self.contiguous = self.bases == cum

    def with_parts(self, parts, avail=None, bases=None):
        return Input(self.data, parts, self.path, avail, bases)

    def harness_field(self):
        src = "@" + self.path if self.path else hx(self.data)
        return src + "~" + "+".join("%d%s%s" % (p, "" if a else "!", "" if self.contiguous else "@%d" % bs)
                                    for p, a, bs in zip(self.parts, self.avail, self.bases))

    def blocks(self):
        return [(bs, self.data[o:o + p], a) for bs, o, p, a in zip(self.bases, self.doff, self.parts, self.avail)]

    def occurrences(self, rs):
        """absolute (offset, string, length) found block by block, fixed-offset strings filtered"""
        out = []
        chained = set(rs.expected_chain_idx())
        for base, b, a in self.blocks():
            for si, s in enumerate(rs.all_strings()):
                if si in chained:
                    continue          # pieces are not occurrences; the chains they form are (below)
                fx = rs.fixed[si] if si < len(rs.fixed) else None
                for o, ln in str_findall(s, b):
                    if fx is None or fx == base + o:
                        out.append((base + o, si, ln))
            out += chain_matches(rs, b, base)
        return sorted(out)

    def same_as_whole(self, rs):
        """True if scanning this partition must give what scanning the same bytes as ONE block gives: contiguous, everything
        available, no string occurrence / integer read cut by a block boundary, same executable header facts"""
        if not self.contiguous or not all(self.avail):
            return False
        # chained strings: the partition must keep every chain of the whole buffer inside one block and create none (the
        # comparison of `occurrences` below covers it: chains are computed block by block)
        whole = Input(self.data)
        if self.occurrences(rs) != whole.occurrences(rs):
            return False
        for c in rs.conds("rd"):
            w, off = c[1], c[2]
            if off + w <= len(self.data) and not any(bs <= off and off + w <= bs + len(b) for bs, b, _ in self.blocks()):
                return False
        b0 = self.blocks()[0][1]
        d = self.data
        if (entry_point_offset(b0), entry_point_address(b0, 0)) != (entry_point_offset(d), entry_point_address(d, 0)):
            return False
        for f in (pe_module_field, elf_module_field, pe_module_field_pm, elf_module_field_pm):
            first = next((f(b) for _, b, _ in self.blocks() if f(b) is not None), None)
            if first != f(d):
                return False
        # later blocks must not look like executables when the first does not (entry point is taken from the first that does)
        if entry_point_offset(b0) is None and any(entry_point_offset(b) is not None for _, b, _ in self.blocks()[1:]):
            return False
        if any(isinstance(s, Bomb) for s in rs.all_strings()):
            if any(Bomb.SAFE < Bomb.longest_run(b) < Bomb.SURE for _, b, _ in self.blocks()):
                return False
            if (Bomb.longest_run(d) >= Bomb.SURE) != any(Bomb.longest_run(b) >= Bomb.SURE for _, b, _ in self.blocks()):
                return False
        return True

    def facts(self, rs):
        d = self.data
        reads = []
        for c in rs.conds("rd"):
            w, off = c[1], c[2]
            for bs, b, _ in self.blocks():
                if bs <= off and off + w <= bs + len(b) and (off, w) not in [(r[0], r[1]) for r in reads]:
                    reads.append((off, w, int.from_bytes(b[off - bs:off - bs + w], "little")))
        hashok = []
        if self.contiguous:
            for c in rs.conds("hash"):
                if hashlib.md5(d[c[1]:c[1] + c[2]]).hexdigest() == c[3]:
                    hashok.append((c[1], c[2]))
        blks = []
        strs = rs.all_strings()
        for (base, b, a), p in zip(self.blocks(), self.parts):
            ep = entry_point_offset(b)
            eppm = entry_point_address(b, base)
            mods, modspm = [], []
            for mi, (f, fpm) in enumerate(((pe_module_field, pe_module_field_pm), (elf_module_field, elf_module_field_pm))):
                v = f(b)
                if v is not None: mods.append("%d:%d" % (mi, v))
                v = fpm(b)
                if v is not None: modspm.append("%d:%d" % (mi, v))
            cands = []
            err = None
            for si, s in enumerate(strs):
                fx = rs.fixed[si] if si < len(rs.fixed) else None
                for o, ln in str_findall(s, b):
                    if fx is None or fx == base + o:
                        cands.append((o, si, ln))
                if isinstance(s, Bomb) and Bomb.longest_run(b) >= Bomb.SURE:
                    err = Bomb.ERR
            cands.sort()
            if err is not None:
                assert not cands, "a block that makes the regexp engine fail must not contain other matches (their order is not modelled)"
            blks.append("%d.%d.%d.%s.%s.%s.%s.%s.%s" % (base, p, 1 if a else 0, "-" if ep is None else str(ep), "&".join(mods) or "-",
                                                         "&".join("%d:%d:%d" % (si, o, l) for o, si, l in cands) or "-",
                                                         "-" if err is None else str(err), "-" if eppm is None else str(eppm),
                                                         "&".join(modspm) or "-"))
        return "|".join([str(len(d)), ",".join("%d.%d.%d" % r for r in reads) or "-",
                         ",".join("%d.%d" % h for h in hashok) or "-"] + blks)


def repo_input(rel):
    repo = os.environ.get("VERIF_REPO", "/repo")
    return Input(open(os.path.join(repo, rel), "rb").read(), path=rel)


def case_line(cid, rs, inputs, flags, timeout, maxm, ops, variant=None):
    f = ["%s" % cid, "rs=" + rs.source().encode().hex(), "in=" + ";".join(i.harness_field() for i in inputs),
         "fl=%d" % flags, "to=%d" % timeout, "ops=" + ";".join(ops), rs.model_fields(), "mx=%d" % maxm,
         "mf=" + ";".join(i.facts(rs) for i in inputs)]
    if variant:
        f.append("mv=" + variant)
    return " ".join(f)


def split_parts(r, n, k):
    """k block sizes summing to n (k clipped to what n allows; a block may be empty only if n == 0)"""
    if n == 0:
        return [0]
    k = max(1, min(k, n))
    cuts = sorted(r.sample(range(1, n), k - 1)) if k > 1 else []
    return [b - a for a, b in zip([0] + cuts, cuts + [n])]
