"""C04 helper — condition ASTs on the Python side: rule-text printer (minimal parentheses from the
manual's precedence table), S-expression serialiser for the Lean driver, mirror of the compile-time
constant folder (to predict compile-time rejections), and a second implementation of the specification
(`Eval`, strict mode) that also records operator x definedness statistics and the events that are the
signatures of the known findings; `Eval` in quirk mode mimics the listed known defects of libyara.

AST nodes are tuples (head, ...):
  int/flt/str valued: ("int", v>=0) ("flt", f) ("str", bytes) ("filesize",) ("ext", name) ("var", depth)
     ("undef", "i"|"f"|"s") ("count", S) ("countin", S, lo, hi) ("offset", S, i) ("length", S, i)
     ("read", kind, e) ("neg", e, ty) ("bnot", e) ("ar", op, a, b, ty)            ty in "i","f"
  boolean valued: ("tt",) ("ff",) ("found", S) ("foundat", S, e) ("foundin", S, lo, hi)
     ("cmp", op, a, b, ty) ty in i,f,s   ("sop", op, a, b) ("matches", a, bytes, nocase)
     ("not", e) ("defined", e) ("and", a, b) ("or", a, b) ("ruleref", k)
     ("of", Q, SET) ("ofin", Q, SET, lo, hi) ("ofat", Q, SET, e) ("pct", p, SET)
     ("ofrules", Q, RSET) ("pctrules", p, RSET)
     ("forrange", Q, lo, hi, body) ("forenum", Q, [items], body, itemty) ("forof", Q, SET, body)
  S = string index (int) or "cur";  Q = ("all",) ("any",) ("none",) ("num", e)
  SET = (form, indices): form = list of ("id", idx) / ("wild", prefix) / ("them",); indices = expansion
  RSET = (form, indices) likewise for rules.
"""
import binascii, math

I64MIN, I64MAX = -2 ** 63, 2 ** 63 - 1
SENT = -1483400188077313          # YR_UNDEFINED as int64
MASK = 2 ** 64 - 1
DBL_EPSILON = 2.220446049250313e-16


def wrap(x):
    return (x + 2 ** 63) % 2 ** 64 - 2 ** 63


def hx(b):
    b = b if isinstance(b, bytes) else b.encode("latin1")
    return binascii.hexlify(b).decode() or "-"


# ------------------------------------------------------------------ operator tables

AR_TEXT = {"add": "+", "sub": "-", "mul": "*", "div": "\\", "mod": "%", "band": "&", "bor": "|", "bxor": "^", "shl": "<<", "shr": ">>"}
CMP_TEXT = {"eq": "==", "neq": "!=", "lt": "<", "le": "<=", "gt": ">", "ge": ">="}
SOPS = ["contains", "icontains", "startswith", "istartswith", "endswith", "iendswith", "iequals"]
RD_KINDS = {"i8": ("int8", 1, True, False), "i16": ("int16", 2, True, False), "i32": ("int32", 4, True, False),
            "u8": ("uint8", 1, False, False), "u16": ("uint16", 2, False, False), "u32": ("uint32", 4, False, False),
            "i8be": ("int8be", 1, True, True), "i16be": ("int16be", 2, True, True), "i32be": ("int32be", 4, True, True),
            "u8be": ("uint8be", 1, False, True), "u16be": ("uint16be", 2, False, True), "u32be": ("uint32be", 4, False, True)}
UNDEF_TEXT = {"i": "tests.undefined.i", "f": "tests.undefined.f", "s": 'tests.string_dict["zz"]'}

# Module values: the `tests` module (libyara/modules/tests/tests.c, module_load) fixes them, so they are constants of the
# specification.  Defined ones travel as pseudo-externals named m_* (token mext=, ignored by h_scan; printed as the module
# expression); undefined ones as ("undef", ty, text).  They make the object opcodes (OBJ_LOAD / OBJ_FIELD / INDEX_ARRAY /
# LOOKUP_DICT / CALL / OBJ_VALUE) part of the compared verdicts.
MODPROBES = {
    "m_one": ("tests.constants.one", "i", 1), "m_two": ("tests.constants.two", "i", 2),
    "m_ia0": ("tests.integer_array[0]", "i", 0), "m_ia1": ("tests.integer_array[1]", "i", 1), "m_ia2": ("tests.integer_array[2]", "i", 2),
    "m_ia256": ("tests.integer_array[256]", "i", 256),
    "m_sa1i": ("tests.struct_array[1].i", "i", 1), "m_sdfi": ('tests.struct_dict["foo"].i', "i", 1),
    "m_isum2": ("tests.isum(1, 2)", "i", 3), "m_isum3": ("tests.isum(1, 2, 3)", "i", 6), "m_isum0": ("tests.isum(-1, 1)", "i", 0),
    "m_len5": ('tests.length("dummy")', "i", 5), "m_len0": ('tests.length("")', "i", 0),
    "m_foo": ("tests.constants.foo", "s", b"foo"), "m_empty": ("tests.constants.empty", "s", b""),
    "m_sa0": ("tests.string_array[0]", "s", b"foo"), "m_sa1": ("tests.string_array[1]", "s", b"bar"), "m_sa2": ("tests.string_array[2]", "s", b"baz"),
    "m_sa3": ("tests.string_array[3]", "s", b"foo\x00bar"),
    "m_sdf": ('tests.string_dict["foo"]', "s", b"foo"), "m_sdb": ('tests.string_dict["bar"]', "s", b"bar"),
    "m_sdfs": ('tests.struct_dict["foo"].s', "s", b"foo"),
    "m_emptyf": ("tests.empty()", "s", b""), "m_fb1": ("tests.foobar(1)", "s", b"foo"), "m_fb2": ("tests.foobar(2)", "s", b"bar"),
    "m_fb3": ("tests.foobar(3)", "s", b"oops"),
    "m_fsum2": ("tests.fsum(1.0, 2.0)", "f", 3.0), "m_fsum3": ("tests.fsum(1.0, 2.0, 0.5)", "f", 3.5),
}
MODITER = {
    "tests.integer_array": ("i", [("int", 0), ("int", 1), ("int", 2)] + [("undef", "i")] * 253 + [("int", 256)]),
    "tests.string_array": ("s", [("str", b"foo"), ("str", b"bar"), ("str", b"baz"), ("str", b"foo\x00bar")]),
    "tests.string_dict": ("s", [("str", b"foo"), ("str", b"bar")]),
    "tests.integer_dict": ("i", []),
}
MODUNDEF = {
    "i": ["tests.undefined.i", "tests.integer_array[3]", "tests.integer_array[255]", 'tests.integer_dict["foo"]', "tests.struct_array[0].i",
          "tests.struct_array[1000].i", 'tests.struct_dict["bar"].i', "entrypoint", "tests.empty_struct_array[0].struct_array[0].unused == \"x\""][:8],
    "f": ["tests.undefined.f"],
    "s": ['tests.string_dict["zz"]', "tests.string_array[4]", "tests.struct_array[1].s", 'tests.struct_dict["zz"].s', "tests.module_data", 'tests.string_dict[""]',
          "tests.string_array[tests.undefined.i]", "tests.foobar(tests.undefined.i)", 'tests.string_dict[tests.string_dict["zz"]]'],
}
AR_OPC = {"add": "ADD", "sub": "SUB", "mul": "MUL", "div": "DIV"}
CMP_OPC = {"eq": "EQ", "neq": "NEQ", "lt": "LT", "le": "LE", "gt": "GT", "ge": "GE"}
INT_ONLY_OPC = {"mod": "OP_MOD", "band": "OP_BITWISE_AND", "bor": "OP_BITWISE_OR", "bxor": "OP_BITWISE_XOR", "shl": "OP_SHL", "shr": "OP_SHR"}


class Prec:
    """operator -> (level, assoc) from the MANUAL's table (level 1 binds tightest)"""

    def __init__(self, manual_rows):
        self.lv = {}
        for level, assoc, ops in manual_rows:
            for o in ops:
                self.lv[o] = (level, assoc)

    def of(self, op):
        return self.lv[op]


# ------------------------------------------------------------------ printer (trusted; tested by selftest())

ATOM = 0
PSEUDO = 10     # `$a at e`, `N of S`, `for ...`: consume primary expressions, sit at the comparison level


def strlit(b):
    out = []
    for c in b:
        if c in (0x22, 0x5c):
            out.append("\\" + chr(c))
        elif 0x20 <= c < 0x7f:
            out.append(chr(c))
        else:
            out.append("\\x%02x" % c)
    return '"' + "".join(out) + '"'


def fltlit(f):
    s = "%.6f" % f
    assert float(s) == f and f >= 0, f
    return s


class Printer:
    def __init__(self, prec, strnames, rulenames):
        self.p, self.sn, self.rn = prec, strnames, rulenames

    def sref(self, s, sigil):
        return sigil if s == "cur" else sigil + self.sn[s][1:]

    def sset(self, st):
        form = st[0]
        if form == [("them",)]:
            return "them"
        items = []
        for it in form:
            if it[0] == "id":
                items.append(self.sn[it[1]])
            elif it[0] == "wild":
                items.append(it[1] + "*")
            else:
                items.append("$*")
        return "(" + ", ".join(items) + ")"

    def rset(self, st):
        items = []
        for it in st[0]:
            items.append(self.rn[it[1]] if it[0] == "id" else it[1] + "*")
        return "(" + ", ".join(items) + ")"

    def quant(self, q):
        if q[0] != "num":
            return q[0]
        return self.pp(q[1])[0]

    def child(self, e, level, right=False, rassoc=False):
        """text of operand `e` of an operator of the given level"""
        t, lv = self.pp(e)
        need = lv > level or (lv == level and (right != rassoc))
        return "(" + t + ")" if need else t

    def binary(self, op, a, b):
        level, assoc = self.p.of(op)
        r = assoc == "right"
        return self.child(a, level, False, r) + " " + op + " " + self.child(b, level, True, r), level

    def unary(self, op, text, e):
        level, _ = self.p.of(op)
        t = self.child(e, level, True, True)
        sep = " " if (text.isalpha() or t.startswith(text)) else ""
        return text + sep + t, level

    def rng(self, lo, hi):
        return "(" + self.pp(lo)[0] + " .. " + self.pp(hi)[0] + ")"

    def pp(self, e):
        """-> (text, level): level of the outermost operator (0 = atom)"""
        h = e[0]
        if h == "int":
            return (("0x%x" % e[1]) if len(e) > 2 and e[2] == "hex" else str(e[1])), ATOM
        if h == "flt":
            return fltlit(e[1]), ATOM
        if h == "str":
            return strlit(e[1]), ATOM
        if h == "filesize":
            return "filesize", ATOM
        if h == "ext":
            return (MODPROBES[e[1]][0] if e[1] in MODPROBES else e[1]), ATOM
        if h == "var":
            return "i%d" % e[1], ATOM
        if h == "undef":
            return (e[2] if len(e) > 2 else UNDEF_TEXT[e[1]]), ATOM
        if h == "count":
            return self.sref(e[1], "#"), ATOM
        if h == "countin":
            return self.sref(e[1], "#") + " in " + self.rng(e[2], e[3]), ATOM
        if h in ("offset", "length"):
            sig = "@" if h == "offset" else "!"
            if e[2] == ("int", 1, "short"):
                return self.sref(e[1], sig), ATOM
            return self.sref(e[1], sig) + "[" + self.pp(e[2])[0] + "]", ATOM
        if h == "read":
            return RD_KINDS[e[1]][0] + "(" + self.pp(e[2])[0] + ")", ATOM
        if h == "neg":
            return self.unary("unary-", "-", e[1])
        if h == "bnot":
            return self.unary("~", "~", e[1])
        if h == "ar":
            return self.binary(AR_TEXT[e[1]], e[2], e[3])
        if h == "tt":
            return "true", ATOM
        if h == "ff":
            return "false", ATOM
        if h == "found":
            return self.sref(e[1], "$"), ATOM
        if h == "foundat":
            return self.sref(e[1], "$") + " at " + self.pp(e[2])[0], PSEUDO
        if h == "foundin":
            return self.sref(e[1], "$") + " in " + self.rng(e[2], e[3]), PSEUDO
        if h == "cmp":
            return self.binary(CMP_TEXT[e[1]], e[2], e[3])
        if h == "sop":
            return self.binary(e[1], e[2], e[3])
        if h == "matches":
            level, _ = self.p.of("matches")
            return self.child(e[1], level) + " matches /" + e[2].decode("ascii") + "/" + ("i" if e[3] else ""), level
        if h == "not":
            return self.unary("not", "not", e[1])
        if h == "defined":
            return self.unary("defined", "defined", e[1])
        if h == "and":
            return self.binary("and", e[1], e[2])
        if h == "or":
            return self.binary("or", e[1], e[2])
        if h == "ruleref":
            return self.rn[e[1]], ATOM
        if h == "of":
            return self.quant(e[1]) + " of " + self.sset(e[2]), PSEUDO
        if h == "ofin":
            return self.quant(e[1]) + " of " + self.sset(e[2]) + " in " + self.rng(e[3], e[4]), PSEUDO
        if h == "ofat":
            return self.quant(e[1]) + " of " + self.sset(e[2]) + " at " + self.pp(e[3])[0], PSEUDO
        if h == "pct":
            # `P % of S`: P is the left operand of a level-of-`%` left-associative operator
            return self.child(e[1], self.p.of("%")[0]) + "% of " + self.sset(e[2]), PSEUDO
        if h == "ofrules":
            return self.quant(e[1]) + " of " + self.rset(e[2]), PSEUDO
        if h == "pctrules":
            return self.child(e[1], self.p.of("%")[0]) + "% of " + self.rset(e[2]), PSEUDO
        if h == "forrange":
            d = e[5]
            return "for %s i%d in %s : (%s)" % (self.quant(e[1]), d, self.rng(e[2], e[3]), self.pp(e[4])[0]), PSEUDO
        if h == "forenum":
            d = e[5]
            if len(e) > 7:          # iteration over a module array / dictionary whose contents are e[2]
                return "for %s %si%d in %s : (%s)" % (self.quant(e[1]), ("k%d, " % d) if "_dict" in e[7] else "", d, e[7], self.pp(e[3])[0]), PSEUDO
            return "for %s i%d in (%s) : (%s)" % (self.quant(e[1]), d, ", ".join(self.pp(x)[0] for x in e[2]), self.pp(e[3])[0]), PSEUDO
        if h == "forof":
            return "for %s of %s : (%s)" % (self.quant(e[1]), self.sset(e[2]), self.pp(e[3])[0]), PSEUDO
        raise ValueError(h)


# ------------------------------------------------------------------ S-expression for the Lean driver

def set_indices(form, names):
    """THE meaning of a written string set / rule set (mirrored by Cond.setDenotes in lean/YaraModel/Spec/Cond.lean):
    item by item, each item's members in declaration order, duplicates kept.  ("id", k): exactly the k-th identifier —
    never the identifiers that merely start with it; ("wild", p): every identifier starting with p; them / $*: all."""
    idx = []
    for it in form:
        if it[0] == "id":
            idx.append(it[1])
        elif it[0] == "wild":
            idx += [i for i, n in enumerate(names) if n.startswith(it[1])]
        else:
            idx += list(range(len(names)))
    return idx


_SXCTX = [None]      # (string identifiers of the rule, identifiers of the rules declared before it) while a rule is serialised


def sx_rule(cond, names, rnames):
    """the rule's condition with its sets AS WRITTEN ((sset;x$a;w$a;t) / (rsset;xr;wr)): the Lean specification expands them"""
    _SXCTX[0] = (list(names), list(rnames))
    try:
        return sx(cond)
    finally:
        _SXCTX[0] = None


def _written(st, rules):
    ctx = _SXCTX[0]
    names = ctx[1 if rules else 0] if ctx else None
    if names is None or set_indices(st[0], names) != list(st[1]) or any(";" in n or "(" in n or ")" in n for n in names):
        return "(set%s)" % "".join(";%d" % i for i in st[1])
    items = []
    for it in st[0]:
        items.append("x" + names[it[1]] if it[0] == "id" else "w" + it[1] if it[0] == "wild" else "t")
    return "(%s;%s)" % ("rsset" if rules else "sset", ";".join(items))


def sx(e):
    h = e[0]
    S = lambda s: "$" if s == "cur" else "$%d" % s
    Q = lambda q: "(q;%s)" % q[0] if q[0] != "num" else "(q;num;%s)" % sx(q[1])
    SET = lambda st: _written(st, h in ("ofrules", "pctrules"))
    if h == "int":
        return "(int;%d)" % e[1]
    if h == "flt":
        return "(flt;%s)" % fltlit(e[1])
    if h == "str":
        return "(str;%s)" % hx(e[1])
    if h in ("filesize", "tt", "ff"):
        return "(%s)" % h
    if h == "ext":
        return "(ext;%s)" % e[1]
    if h == "var":
        return "(var;%d)" % e[1]
    if h == "undef":
        return "(undef;%s)" % e[1]
    if h in ("count", "found"):
        return "(%s;%s)" % (h, S(e[1]))
    if h in ("countin", "foundin"):
        return "(%s;%s;%s;%s)" % (h, S(e[1]), sx(e[2]), sx(e[3]))
    if h in ("offset", "length", "foundat"):
        return "(%s;%s;%s)" % (h, S(e[1]), sx(e[2]))
    if h == "read":
        return "(read;%s;%s)" % (e[1], sx(e[2]))
    if h in ("neg", "bnot", "not", "defined"):
        return "(%s;%s)" % (h, sx(e[1]))
    if h == "ar":
        return "(ar;%s;%s;%s)" % (e[1], sx(e[2]), sx(e[3]))
    if h == "cmp":
        return "(cmp;%s;%s;%s)" % (e[1], sx(e[2]), sx(e[3]))
    if h == "sop":
        return "(sop;%s;%s;%s)" % (e[1], sx(e[2]), sx(e[3]))
    if h == "matches":
        return "(matches;%s;%s;%d)" % (sx(e[1]), hx(e[2]), 1 if e[3] else 0)
    if h in ("and", "or"):
        return "(%s;%s;%s)" % (h, sx(e[1]), sx(e[2]))
    if h == "ruleref":
        return "(ruleref;%d)" % e[1]
    if h in ("of", "ofrules"):
        return "(%s;%s;%s)" % (h, Q(e[1]), SET(e[2]))
    if h == "ofin":
        return "(ofin;%s;%s;%s;%s)" % (Q(e[1]), SET(e[2]), sx(e[3]), sx(e[4]))
    if h == "ofat":
        return "(ofat;%s;%s;%s)" % (Q(e[1]), SET(e[2]), sx(e[3]))
    if h in ("pct", "pctrules"):
        return "(%s;%s;%s)" % (h, sx(e[1]), SET(e[2]))
    if h == "forrange":
        return "(forrange;%s;%s;%s;%s)" % (Q(e[1]), sx(e[2]), sx(e[3]), sx(e[4]))
    if h == "forenum":
        return "(forenum;%s;(items%s);%s)" % (Q(e[1]), "".join(";" + sx(x) for x in e[2]), sx(e[3]))
    if h == "forof":
        return "(forof;%s;%s;%s)" % (Q(e[1]), SET(e[2]), sx(e[3]))
    raise ValueError(h)


# ------------------------------------------------------------------ compile-time folding mirror (grammar.y)

class Reject(Exception):
    """the compiler is expected to reject the rule (constant operands)"""


def tdiv(a, b):
    q = abs(a) // abs(b)
    return q if (a < 0) == (b < 0) else -q


def tmod(a, b):
    return a - b * tdiv(a, b)


def llabs(a):
    return wrap(-a) if a < 0 else a


def _u(v):
    return None if v is None or v == SENT else v


def cfold(e):
    """compile-time value of an integer expression (None = not known), raising Reject like grammar.y"""
    h = e[0]
    if h == "int":
        return _u(e[1])
    if h == "neg":
        if e[2] != "i":
            cfold_walk(e[1]); return None
        v = cfold(e[1])
        return None if v is None else _u(wrap(-v))
    if h == "bnot":
        v = cfold(e[1])
        return None if v is None else _u(wrap(~v))
    if h == "ar":
        if e[4] != "i":
            cfold_walk(e[2]); cfold_walk(e[3]); return None
        a, b = cfold(e[2]), cfold(e[3])
        op = e[1]
        known = a is not None and b is not None
        if op == "add":
            if known and ((b > 0 and a > I64MAX - b) or (b < 0 and a < I64MIN - b)):
                raise Reject("INTEGER_OVERFLOW")
            return _u(wrap(a + b)) if known else None
        if op == "sub":
            if known and ((b < 0 and a > I64MAX + b) or (b > 0 and a < I64MIN + b)):
                raise Reject("INTEGER_OVERFLOW")
            return _u(wrap(a - b)) if known else None
        if op == "mul":
            if known and b != 0:
                lb = llabs(b)
                if llabs(a) > tdiv(I64MAX, lb):
                    raise Reject("INTEGER_OVERFLOW")
            return _u(wrap(a * b)) if known else None
        if op in ("div", "mod"):
            if b == 0:
                raise Reject("DIVISION_BY_ZERO")
            if a == I64MIN and b == -1:
                return None
            if not known:
                return None
            return _u(wrap(tdiv(a, b))) if op == "div" else _u(tmod(a, b))
        if op in ("band", "bor", "bxor"):
            if not known:
                return None
            x, y = a & MASK, b & MASK
            return _u(wrap({"band": x & y, "bor": x | y, "bxor": x ^ y}[op]))
        if op in ("shl", "shr"):
            if b is not None and b < 0:
                raise Reject("INVALID_OPERAND")
            if b is not None and b >= 64:
                return 0
            if not known:
                return None
            return _u(wrap(a << b)) if op == "shl" else _u(a >> b)
    cfold_walk(e, top=False)
    return None


def _rng(lo, hi):
    a, b = cfold(lo), cfold(hi)
    if a is not None and b is not None:
        if a > b or a < 0:
            raise Reject("INVALID_VALUE")


def _q(q):
    if q[0] == "num":
        v = cfold(q[1])
        if v is not None and v < 0:
            raise Reject("INVALID_VALUE")


def _pct(p):
    v = cfold(p)
    if v is not None and (v < 1 or v > 100):
        raise Reject("INVALID_PERCENTAGE")


def cfold_walk(e, top=True):
    """visit every sub-expression so that all compile-time checks fire"""
    h = e[0]
    if top and h in ("int", "neg", "bnot", "ar"):
        cfold(e)
        return
    if h in ("countin", "foundin"):
        _rng(e[2], e[3])
    elif h in ("offset", "length", "foundat", "read"):
        cfold(e[2])
    elif h in ("cmp", "sop"):
        cfold(e[2]); cfold(e[3])
    elif h == "matches":
        cfold(e[1])
    elif h in ("not", "defined"):
        cfold_walk(e[1])
    elif h in ("and", "or"):
        cfold_walk(e[1]); cfold_walk(e[2])
    elif h in ("of", "ofrules"):
        _q(e[1])
    elif h == "ofin":
        _q(e[1]); _rng(e[3], e[4])
    elif h == "ofat":
        _q(e[1]); cfold(e[3])
    elif h in ("pct", "pctrules"):
        _pct(e[1])
    elif h == "forrange":
        _q(e[1]); _rng(e[2], e[3]); cfold_walk(e[4])
    elif h == "forenum":
        _q(e[1])
        for x in e[2]:
            cfold(x)
        cfold_walk(e[3])
    elif h == "forof":
        _q(e[1]); cfold_walk(e[3])


def fixed_offset_of(cond, nstr):
    """mirror of the FIXED_OFFSET flag (parser.c): per string, the constant K when every reference is
    `$s at K` with one and the same compile-time constant K; else None.  Returns list per string."""
    state = [("unset", None)] * nstr        # unset / fixed K / off

    def ref(s, kind, k=None):
        if s == "cur":
            targets = range(nstr)
        else:
            targets = [s]
        for t in targets:
            st = state[t]
            if kind == "at" and k is not None:
                if st[0] == "unset":
                    state[t] = ("fixed", k)
                elif st[0] == "fixed" and st[1] != k:
                    state[t] = ("off", None)
            else:
                state[t] = ("off", None)

    def safe_cfold(x):
        try:
            return cfold(x)
        except Reject:
            return None

    def walk(e):
        h = e[0]
        if h in ("count", "found"):
            ref(e[1], "other")
        elif h in ("countin", "foundin"):
            walk(e[2]); walk(e[3]); ref(e[1], "other")
        elif h in ("offset", "length"):
            walk(e[2]); ref(e[1], "other")
        elif h == "foundat":
            walk(e[2]); ref(e[1], "at", safe_cfold(e[2]))
        elif h in ("of", "ofin", "ofat", "pct", "forof"):
            for i in e[2][1]:
                state[i] = ("off", None)
        for x in e[1:]:
            if isinstance(x, tuple) and x and isinstance(x[0], str) and x[0] not in ("all", "any", "none"):
                if x[0] == "num":
                    walk(x[1])
                elif h not in ("countin", "foundin", "offset", "length", "foundat"):
                    walk(x)
            elif isinstance(x, list):
                for y in x:
                    if isinstance(y, tuple):
                        walk(y)
    walk(cond)
    return [st[1] if st[0] == "fixed" else None for st in state]


# ------------------------------------------------------------------ evaluator (spec mirror + quirk mode)

class Budget(Exception):
    pass


class Env:
    def __init__(self, strs, blocks, filesize, ext, rules, disabled=()):
        self.strs, self.blocks, self.filesize, self.ext, self.rules = strs, blocks, filesize, ext, rules
        self.disabled = set(disabled)       # rules switched off with yr_rule_disable: never match (their entry in `rules` is False);
                                            # a direct reference is undefined, inside a rule set they count as not matching


def truthy(v):
    if v is None:
        return None
    t = type(v)
    if t is bool:
        return v
    if t is int:
        return v != 0
    if t is bytes:
        return len(v) > 0
    return v != 0.0 or math.copysign(1, v) < 0


def as_bool(v):
    return truthy(v) is True


def lower(b):
    return bytes(c + 32 if 65 <= c <= 90 else c for c in b)


def str_compare(a, b):
    return 0 if a == b else (-1 if a < b else 1)


def cmp_num(op, a, b):
    return {"eq": a == b, "neq": a != b, "lt": a < b, "le": a <= b, "gt": a > b, "ge": a >= b}[op]


def cmp_flt(op, a, b):
    if op == "eq":
        return abs(a - b) < DBL_EPSILON
    if op == "neq":
        return abs(a - b) >= DBL_EPSILON
    return cmp_num(op, a, b)


QUIRKS = ("sentinel", "undef_quantifier", "int_loop_body", "dbl_lt_undef", "range_wrap")


class Eval:
    """quirks: set of names from QUIRKS whose libyara behaviour is to be mimicked (empty = the specification)"""

    def __init__(self, env, quirks=(), budget=60000):
        self.env, self.q = env, set(quirks)
        self.stats = {}
        self.events = set()
        self.steps = budget

    def stat(self, name, *vals):
        k = name + ":" + "".join("U" if v is None else "D" for v in vals)
        self.stats[k] = self.stats.get(k, 0) + 1

    def I(self, v):
        """an integer result"""
        if v == SENT:
            self.events.add("sentinel")
            if "sentinel" in self.q:
                return None
        return v

    def ms(self, s, cur):
        if s == "cur":
            return self.env.strs[cur] if cur is not None else []
        return self.env.strs[s]

    def read(self, kind, off):
        _, n, signed, be = RD_KINDS[kind]
        if off is None or off < 0:
            return None
        for base, data in self.env.blocks:
            if base <= off and n <= len(data) and off + n <= base + len(data):
                bs = data[off - base: off - base + n]
                return int.from_bytes(bs, "big" if be else "little", signed=signed)
        return None

    def quant(self, q, vars_, cur, opname):
        """-> ('all'|'none'|'atleast'|'undef', k)"""
        if q[0] != "num":
            self.stat(opname + "/" + q[0])
            return {"all": ("all", None), "any": ("atleast", 1), "none": ("none", None)}[q[0]]
        v = self.ev(q[1], vars_, cur)
        self.stat(opname + "/num", v)
        if v is None:
            self.events.add("undef_quantifier")
            return ("all", None) if "undef_quantifier" in self.q else ("undef", None)
        return ("none", None) if v == 0 else ("atleast", v)

    @staticmethod
    def holds(q, t, n):
        if q[0] == "undef":
            return None
        if q[0] == "all":
            return t >= n
        if q[0] == "none":
            return t == 0
        return t >= q[1]

    def pct(self, t, n, p):
        """`P% of`: exact — t / n >= p / 100 (F44, the double-precision comparison, is repaired; its return is a violation)"""
        if p is None:
            return None
        return t * 100 >= p * n

    def loop(self, q, items, body, vars_, curs, bool_body):
        """items: list of loop-variable values; curs: per item the for..of string (or None)"""
        qv = q
        if "int_loop_body" not in self.q:
            t = 0
            for it, c in zip(items, curs):
                r = self.ev(body, vars_ + [it], c)
                if not bool_body and r is not None and type(r) is int and r not in (0, 1):
                    self.events.add("int_loop_body")
                if as_bool(r):
                    t += 1
            if qv[0] == "undef":
                return None
            if not items:
                return False
            return self.holds(qv, t, len(items))
        # libyara's protocol (ITER_CONDITION / ADD_M / ITER_END), with the body's VM value
        if qv[0] == "undef":
            for it, c in zip(items, curs):
                self.ev(body, vars_ + [it], c)
            return None
        m0 = m1 = 0
        for it, c in zip(items, curs):
            r = self.ev(body, vars_ + [it], c)
            if r is None:
                ri = SENT
            elif type(r) is bool:
                ri = 1 if r else 0
            elif type(r) is int:
                ri = r
                if r not in (0, 1):
                    self.events.add("int_loop_body")
            elif type(r) is bytes:
                ri = 1 if r else 0
            else:
                ri = 1 if as_bool(r) else 0
            m1 += 1
            if qv[0] == "all":
                cont = ri != 0
            elif qv[0] == "none":
                cont = ri != 1
            else:
                cont = wrap(m0 + ri) < qv[1]
            if r is not None:
                m0 = wrap(m0 + ri)
            if not cont:
                break
        if m1 == 0:
            return False
        if qv[0] == "all":
            return m0 == m1
        if qv[0] == "none":
            return m0 == 0
        return m0 >= qv[1]

    def ev(self, e, vars_=(), cur=None):
        self.steps -= 1
        if self.steps < 0:
            raise Budget()
        vars_ = list(vars_)
        h = e[0]
        env = self.env
        if h == "int":
            return self.I(e[1])
        if h in ("flt", "str"):
            return e[1]
        if h == "filesize":
            return env.filesize
        if h == "ext":
            v = env.ext[e[1]][1]
            return self.I(v) if type(v) is int else v
        if h == "var":
            return vars_[e[1]] if e[1] < len(vars_) else None
        if h == "undef":
            return None
        if h == "count":
            return len(self.ms(e[1], cur))
        if h == "countin":
            lo, hi = self.ev(e[2], vars_, cur), self.ev(e[3], vars_, cur)
            self.stat("OP_COUNT_IN", lo, hi)
            if lo is None or hi is None:
                return None
            return sum(1 for m in self.ms(e[1], cur) if lo <= m[0] <= hi)
        if h in ("offset", "length"):
            i = self.ev(e[2], vars_, cur)
            self.stat("OP_OFFSET" if h == "offset" else "OP_LENGTH", i)
            ms = self.ms(e[1], cur)
            if i is None or i < 1 or i > len(ms):
                return None
            return ms[i - 1][0 if h == "offset" else 1]
        if h == "read":
            off = self.ev(e[2], vars_, cur)
            v = self.read(e[1], off)
            self.stat("OP_" + RD_KINDS[e[1]][0].upper(), off)
            k = "read:" + ("undef-offset" if off is None else "in" if v is not None else "out")
            self.stats[k] = self.stats.get(k, 0) + 1
            return v
        if h == "neg":
            v = self.ev(e[1], vars_, cur)
            self.stat("OP_INT_MINUS" if e[2] == "i" else "OP_DBL_MINUS", v)
            if v is None:
                return None
            return self.I(wrap(-v)) if e[2] == "i" else -v
        if h == "bnot":
            v = self.ev(e[1], vars_, cur)
            self.stat("OP_BITWISE_NOT", v)
            return None if v is None else self.I(wrap(~v))
        if h == "ar":
            a, b = self.ev(e[2], vars_, cur), self.ev(e[3], vars_, cur)
            op = e[1]
            if e[4] == "f":
                self.stat("OP_DBL_" + AR_OPC[op], a, b)
                if a is None or b is None:
                    return None
                a, b = float(a), float(b)
                return a + b if op == "add" else a - b if op == "sub" else a * b if op == "mul" else a / b
            self.stat("OP_INT_" + AR_OPC[op] if op in AR_OPC else INT_ONLY_OPC[op], a, b)
            if a is None or b is None:
                return None
            if op == "add":
                return self.I(wrap(a + b))
            if op == "sub":
                return self.I(wrap(a - b))
            if op == "mul":
                return self.I(wrap(a * b))
            if op in ("div", "mod"):
                if b == 0 or (a == I64MIN and b == -1):
                    self.stats["divmod:undefined"] = self.stats.get("divmod:undefined", 0) + 1
                    return None
                return self.I(wrap(tdiv(a, b))) if op == "div" else self.I(tmod(a, b))
            if op in ("band", "bor", "bxor"):
                x, y = a & MASK, b & MASK
                return self.I(wrap({"band": x & y, "bor": x | y, "bxor": x ^ y}[op]))
            k = "shift:" + ("neg" if b < 0 else "lt64" if b < 64 else "ge64")
            self.stats[k] = self.stats.get(k, 0) + 1
            if b < 0:
                return None
            if b >= 64:
                return 0
            return self.I(wrap(a << b)) if op == "shl" else self.I(a >> b)
        if h == "tt":
            return True
        if h == "ff":
            return False
        if h == "found":
            return len(self.ms(e[1], cur)) > 0
        if h == "foundat":
            x = self.ev(e[2], vars_, cur)
            self.stat("OP_FOUND_AT", x)
            return None if x is None else any(m[0] == x for m in self.ms(e[1], cur))
        if h == "foundin":
            lo, hi = self.ev(e[2], vars_, cur), self.ev(e[3], vars_, cur)
            self.stat("OP_FOUND_IN", lo, hi)
            if lo is None or hi is None:
                return None
            return any(lo <= m[0] <= hi for m in self.ms(e[1], cur))
        if h == "cmp":
            a, b = self.ev(e[2], vars_, cur), self.ev(e[3], vars_, cur)
            ty = e[4]
            self.stat("OP_%s_%s" % ({"i": "INT", "f": "DBL", "s": "STR"}[ty], CMP_OPC[e[1]]), a, b)
            if a is None or b is None:
                if ty == "f" and e[1] == "lt":
                    self.events.add("dbl_lt_undef")
                    if "dbl_lt_undef" in self.q:
                        return False
                return None
            if ty == "i":
                return cmp_num(e[1], a, b)
            if ty == "f":
                return cmp_flt(e[1], float(a), float(b))
            return cmp_num(e[1], str_compare(a, b), 0)      # unsigned byte order (F57, the signed-char order, is repaired: its return is a violation)
        if h == "sop":
            a, b = self.ev(e[2], vars_, cur), self.ev(e[3], vars_, cur)
            self.stat("OP_" + e[1].upper(), a, b)
            if a is None or b is None:
                return None
            op = e[1]
            if op.startswith("i"):
                a, b = lower(a), lower(b)
                op = op[1:]
            return {"contains": b in a, "startswith": a.startswith(b), "endswith": a.endswith(b), "equals": a == b}[op]
        if h == "matches":
            a = self.ev(e[1], vars_, cur)
            self.stat("OP_MATCHES", a)
            if a is None:
                return None
            return lower(e[2]) in lower(a) if e[3] else e[2] in a
        if h == "not":
            v = self.ev(e[1], vars_, cur)
            self.stat("OP_NOT", v)
            t = truthy(v)
            return None if t is None else not t
        if h == "defined":
            v = self.ev(e[1], vars_, cur)
            self.stat("OP_DEFINED", v)
            return v is not None
        if h in ("and", "or"):
            a, b = self.ev(e[1], vars_, cur), self.ev(e[2], vars_, cur)
            self.stat("OP_AND" if h == "and" else "OP_OR", a, b)
            if h == "or" and "int_loop_body" in self.q and type(a) is int and a != 0:
                return a        # libyara: the short-circuit jump leaves the left operand's raw value as the value of `or`
            return (as_bool(a) and as_bool(b)) if h == "and" else (as_bool(a) or as_bool(b))
        if h == "ruleref":
            return None if e[1] in env.disabled else env.rules[e[1]]
        if h in ("of", "ofin", "ofat", "ofrules"):
            q = self.quant(e[1], vars_, cur, {"of": "OP_OF", "ofrules": "OP_OF(rules)", "ofin": "OP_OF_FOUND_IN", "ofat": "OP_OF_FOUND_AT"}[h])
            idx = e[2][1]
            if h == "of":
                t = sum(1 for i in idx if env.strs[i])
            elif h == "ofrules":
                t = sum(1 for i in idx if env.rules[i])
            elif h == "ofin":
                lo, hi = self.ev(e[3], vars_, cur), self.ev(e[4], vars_, cur)
                self.stat("OP_OF_FOUND_IN", lo, hi)
                if lo is None or hi is None:
                    return None
                t = sum(1 for i in idx if any(lo <= m[0] <= hi for m in env.strs[i]))
            else:
                x = self.ev(e[3], vars_, cur)
                self.stat("OP_OF_FOUND_AT", x)
                if x is None:
                    return None
                t = sum(1 for i in idx if any(m[0] == x for m in env.strs[i]))
            return self.holds(q, t, len(idx))
        if h in ("pct", "pctrules"):
            p = self.ev(e[1], vars_, cur)
            self.stat("OP_OF_PERCENT" + ("(rules)" if h == "pctrules" else ""), p)
            idx = e[2][1]
            t = sum(1 for i in idx if (env.strs[i] if h == "pct" else env.rules[i]))
            return self.pct(t, len(idx), p)
        if h == "forrange":
            q = self.quant(e[1], vars_, cur, "for..in(range)")
            lo, hi = self.ev(e[2], vars_, cur), self.ev(e[3], vars_, cur)
            self.stat("OP_ITER_START_INT_RANGE", lo, hi)
            if lo is None or hi is None or lo > hi:
                items = []
            else:
                if hi - lo > 64:
                    raise Budget()
                items = list(range(lo, hi + 1))
                if hi == I64MAX:
                    self.events.add("range_wrap")
                    if "range_wrap" in self.q:      # libyara: next++ wraps to INT64_MIN and the iteration goes on
                        items += [I64MIN + j for j in range(48)]
            k = "loop-items:%s" % (len(items) if len(items) < 3 else "3+")
            self.stats[k] = self.stats.get(k, 0) + 1
            return self.loop(q, items, e[4], vars_, [cur] * len(items), e[6])
        if h == "forenum":
            q = self.quant(e[1], vars_, cur, "for..in(enum)")
            items = [self.ev(x, vars_, cur) for x in e[2]]
            self.stat("OP_ITER_START_INT_ENUM" if e[4] == "i" else "OP_ITER_START_TEXT_STRING_SET", *items[:3])
            return self.loop(q, items, e[3], vars_, [cur] * len(items), e[6])
        if h == "forof":
            q = self.quant(e[1], vars_, cur, "for..of")
            idx = e[2][1]
            return self.loop(q, [None] * len(idx), e[3], vars_, list(idx), e[4])
        raise ValueError(h)


def eval_rules(rules, blocks, filesize, ext, quirks=(), disabled=()):
    """rules: list of (strs_matches, cond) -> (verdict list, merged stats, events) ; may raise Budget / ZeroDivisionError
    disabled: positions of the rules switched off through the API (they do not match whatever their condition says)"""
    verdicts, stats, events = [], {}, set()
    for k, (strs, cond) in enumerate(rules):
        ev = Eval(Env(strs, blocks, filesize, ext, list(verdicts), disabled), quirks)
        v = ev.ev(cond)
        verdicts.append(as_bool(v) and k not in disabled)
        k = "condition:" + ("undefined" if v is None else "true" if as_bool(v) else "false")
        ev.stats[k] = ev.stats.get(k, 0) + 1
        for a, b in ev.stats.items():
            stats[a] = stats.get(a, 0) + b
        events |= ev.events
    return verdicts, stats, events


def true_matches(pattern, blocks):
    """all occurrences (overlapping included) of a plain byte string, block by block: [(offset, length)]"""
    out = []
    for base, data in blocks:
        i = data.find(pattern)
        while i >= 0:
            out.append((base + i, len(pattern)))
            i = data.find(pattern, i + 1)
    return sorted(out)


def depth(e):
    d = 0
    for x in e[1:]:
        if isinstance(x, tuple) and x and isinstance(x[0], str) and x[0] not in ("all", "any", "none"):
            d = max(d, depth(x[1]) if x[0] == "num" else depth(x))
        elif isinstance(x, list):
            for y in x:
                if isinstance(y, tuple) and y and y[0] not in ("id", "wild", "them"):
                    d = max(d, depth(y))
    return d + 1


def loop_depth(e):
    d = 0
    for x in e[1:]:
        if isinstance(x, tuple) and x and isinstance(x[0], str) and x[0] not in ("all", "any", "none"):
            d = max(d, loop_depth(x[1]) if x[0] == "num" else loop_depth(x))
        elif isinstance(x, list):
            for y in x:
                if isinstance(y, tuple) and y and y[0] not in ("id", "wild", "them"):
                    d = max(d, loop_depth(y))
    return d + (1 if e[0] in ("forrange", "forenum", "forof") else 0)


def count_ops(e):
    n = 0 if e[0] in ("int", "flt", "str", "filesize", "ext", "var", "undef", "tt", "ff") else 1
    for x in e[1:]:
        if isinstance(x, tuple) and x and isinstance(x[0], str) and x[0] not in ("all", "any", "none"):
            n += count_ops(x[1]) if x[0] == "num" else count_ops(x)
        elif isinstance(x, list):
            for y in x:
                if isinstance(y, tuple) and y and y[0] not in ("id", "wild", "them"):
                    n += count_ops(y)
    return n
