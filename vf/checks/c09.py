"""C09 — Concurrent scans that share one rule set are race-free and deterministic (PARTIAL).

1. Thm/C09.lean re-checked: non-interference / determinism / rules immutability for ALL schedules of the model, and the
   signal-handler use-count protocol of exception.h (installed iff count > 0, old handler restored at 0);
2. runtime tie (harness/h_conc.c): the frame hypothesis "scans only read YR_RULES" is checked deterministically by mapping every
   arena buffer and the YR_RULES struct read-only during the concurrent phase (+ hash before/after); per-scan callback traces of
   1..32 threads are compared with the traces of the same scans run alone; the application's SIGBUS handler is observed inside
   and outside scans; the same scenario runs in a ThreadSanitizer build for data races on process-wide state."""
import os, re, json, glob, collections, subprocess
from vf import core

THM = ["YaraModel.Thm.C09"]
MANIFEST = dict(
    category="proof",
    technique="Lean 4 interleaving model (all schedules) of per-thread scanners over immutable rules + handler use-count protocol; real code: rules mapped "
              "read-only during concurrent scans, per-scan trace comparison against single-threaded runs for 1..32 threads, ThreadSanitizer build",
    text="partial: PROVED for all schedules of the model — each thread's result equals its sequential result (noninterference, deterministic_result), each thread "
         "executes exactly its own actions (progress_is_own_schedule_count), rules never change, YARA's signal handler is installed iff the use count is positive, "
         "the count equals the number of threads inside YR_TRYCATCH and the previous handler is back when the count returns to 0. CHECKED DETERMINISTICALLY on the "
         "real code: the model's frame hypothesis (no write to the shared YR_RULES/arena during scans: read-only mappings). SAMPLED: trace equality for fixed "
         "scenarios (strings, regexes, modules, per-scanner externals, files, aborts, callback errors, open errors, timeouts, scanner reuse, rules-level API), "
         "data-race freedom of the remaining shared state under the schedules TSan happened to see.",
    design_ref="DESIGN.md §1.3, §5 C09",
    note=core.TB + "ThreadSanitizer (gcc) for the C memory model. Not modelled: the signal handler itself taking exception_handler_mutex (a fault delivered while the "
         "same thread holds the mutex would self-deadlock), sigaction calls made by the application during scans, module-global state of third-party libraries (OpenSSL).")

THREADS = [1, 2, 3, 4, 6, 8, 12, 16, 24, 32]


def gen_cases(r, tier, flavour):
    cases = []
    reps = 1 if tier == "quick" else 6
    i = 0
    for rep in range(reps):
        for n in THREADS:
            for k in range(2 if flavour == "asan" else 1):
                seed = r.randrange(0, 1000) * 4 + r.choice([0, 1, 2])          # no timeout thread
                iters = r.choice([2, 3, 4]) if n <= 8 else 2
                cases.append("%s%d %d %d %d%s" % (flavour[0], i, n, iters, seed, " noprotect" if (flavour == "tsan" and i % 2 == 1) else ""))
                i += 1
    for n in ([1, 4, 16] if flavour == "asan" else [8]):                        # library lifetime: nested init/finalize, then scans whose mapped file is truncated
        cases.append("%s%d L %d %d" % (flavour[0], i, n, r.randrange(0, 1000)))
        i += 1
    for k in range(2 if flavour == "asan" else 1):                              # foreign fault while another thread is held inside a protected scan (forked, time limit)
        cases.append("%s%d F %d x" % (flavour[0], i, k))
        i += 1
    for n in ([4, 16] if flavour == "asan" else [8]):                           # with one timing-out scan among the others (1.6 s each)
        cases.append("%s%d %d 2 %d" % (flavour[0], i, n, r.randrange(0, 1000) * 4 + 3))
        i += 1
    return cases


def tsan_reports(stderr):
    reps = []
    for blk in stderr.split("=================="):
        m = re.search(r"WARNING: ThreadSanitizer: ([^\(\n]+)", blk)
        if not m:
            continue
        kind = m.group(1).strip().replace(" ", "-")
        fns = []
        for f, path in re.findall(r"#\d+ (\S+) (\S+)", blk):
            if "/libyara/" in path and f not in fns:
                fns.append(f)
        reps.append((kind, tuple(fns[:2]), blk.strip()[:3000]))
    return reps


def run_flavour(binp, workdir, cases, extra_env):
    e = dict(os.environ)
    e.setdefault("ASAN_OPTIONS", "detect_leaks=1:abort_on_error=0:exitcode=99")
    e.setdefault("UBSAN_OPTIONS", "print_stacktrace=1:halt_on_error=1")
    e.update(extra_env)
    p = subprocess.run([binp, workdir], input="".join(c + "\n" for c in cases), stdout=subprocess.PIPE, stderr=subprocess.PIPE, text=True, timeout=1500,
                       env=e, errors="replace")
    return p.stdout.splitlines(), p.returncode, p.stderr


def run(tier, replay=None):
    chk = core.Check("C09", tier)
    for f in glob.glob(os.path.join(core.OUT, "C09", "*.json")):
        os.remove(f)
    lres = core.lean_check(THM, need_driver=False)
    core.proof_coverage(chk, lres, THM)
    ba = core.build("asan", harness=["h_conc"], extra_defs="-fno-sanitize=alignment", tag="noalign")
    bt = core.build("tsan", harness=["h_conc"])
    # small-limit library (as C10/C11/C15 build it) for the too-many-matches parking scenario, ASan and TSan
    bm = core.build("asan", harness=["h_conc"], extra_defs="-fno-sanitize=alignment -DYR_MAX_STRING_MATCHES=10", tag="m10")
    btm = core.build("tsan", harness=["h_conc"], extra_defs="-DYR_MAX_STRING_MATCHES=10", tag="m10")
    known = core.known_findings("C09")
    r = core.rng("C09")
    plan = [("asan", ba["h_conc"], gen_cases(r, tier, "asan"), {}),
            ("tsan", bt["h_conc"], gen_cases(r, tier, "tsan"), {"TSAN_OPTIONS": "halt_on_error=0:exitcode=66:second_deadlock_stack=1:report_signal_unsafe=1"})]
    pcases = ["p%d P %d %s" % (k, k, "protect" if k % 2 == 0 else "noprotect") for k in range(4 if tier == "quick" else 40)] + ["pf0 F 0 x"]
    plan += [("asan-m10", bm["h_conc"], pcases, {}),
             ("tsan-m10", btm["h_conc"], pcases[:2] if tier == "quick" else pcases[:10], {"TSAN_OPTIONS": "halt_on_error=0:exitcode=66:second_deadlock_stack=1:report_signal_unsafe=1"})]
    if replay:
        plan = [p for p in plan if p[0] == replay.get("flavour", "asan")]
        plan = [(p[0], p[1], [replay["case"]], p[3]) for p in plan]
    found = False
    hist, rcs, kinds = collections.Counter(), collections.Counter(), collections.Counter()
    nscans, nontrivial, ro_cases, samples = 0, set(), 0, []
    from concurrent.futures import ThreadPoolExecutor
    with ThreadPoolExecutor(4) as ex:
        futs = [(fl, cases, ex.submit(run_flavour, binp, os.path.join(core.OUT, "C09", "work-" + fl), cases, env)) for fl, binp, cases, env in plan]
        results = [(fl, cases, f.result()) for fl, cases, f in futs]
    for fl, cases, (out, rc, err) in results:
        byid = {c.split(" ", 1)[0]: c for c in cases}
        answered = {l.split(" ", 1)[0] for l in out}
        for l in out:
            cid = l.split(" ", 1)[0]
            f = dict(kv.split("=", 1) for kv in l.split(" ")[1:] if "=" in kv)
            if cid == "END":
                if f.get("finalize") != "OK":
                    chk.violation("finalize_%s.json" % fl, {"kind": "library-lifetime", "engine": "conc", "harness": "h_conc", "flavour": fl, "cases": cases,
                                                            "implementation": l, "model_spec": "library_alive_iff_referenced: the last yr_finalize finds the library alive and returns ERROR_SUCCESS"})
                    found = True
                continue
            if " F " in l[:len(cid) + 3]:
                hist["%s:foreign-fault-during-scan" % fl] += 1
                nscans += 1
                nontrivial.add(byid.get(cid, cid).split(" ", 1)[1])
                bad = []
                if f.get("outcome") != "done":
                    bad.append("a SIGBUS raised by the application while another thread was inside a protected scan did not reach the application's handler: the "
                               "scenario process %s" % l.split(" F ", 1)[1])
                else:
                    if f.get("recovered") != "1":
                        bad.append("old_handler forwarding: the application's SIGBUS handler was not invoked for a foreign fault (recovered=%s)" % f.get("recovered"))
                    if f.get("yara_handler_installed_during_scan") != "1":
                        bad.append("handler_installed_iff_count_pos: libyara's handler was not installed while a scan was inside YR_TRYCATCH")
                    if f.get("after_installed") != "1":
                        bad.append("old_handler_restored_at_zero: the application's handler was not back after the scan")
                if bad:
                    chk.violation("foreign_%s_%s.json" % (fl, cid), {"kind": "signal-handler-protocol", "engine": "conc", "harness": "h_conc", "flavour": fl, "case": byid.get(cid),
                                                                     "implementation": l, "model_spec": "; ".join(bad)})
                    found = True
                continue
            if " P " in l[:len(cid) + 3]:
                hist["%s:too-many-matches-parking" % fl] += 1
                nscans += 4
                if f.get("too_many", "0") == "0" or f.get("parked") != "1":
                    hist["%s:parking-scenario-not-reached" % fl] += 1      # the build does not have the small limit: nothing to compare
                    continue
                nontrivial.add(byid.get(cid, cid).split(" ", 1)[1])
                bad = []
                if f.get("mismatch") != "0":
                    bad.append("noninterference: while another thread's scan had a string temporarily disabled (too many matches, callback answered CONTINUE), "
                               "this thread's scan gave %s instead of %s (rc/callbacks/trace hash)" % (f.get("b_concurrent"), f.get("b_alone")))
                if f.get("rules_hash") != "same":
                    bad.append("rules_immutable: the rule arena changed during scans")
                if f.get("block_error_rc") not in ("TOO_MANY_MATCHES",):
                    bad.append("a scan refused after too many matches returned %s" % f.get("block_error_rc"))
                if f.get("handler_after_block_error_bad") != "0":
                    bad.append("old_handler_restored_at_zero: after a scan that ended with an error in the block phase (too many matches, callback refused) the "
                               "application's SIGBUS handler is not back (use count not returned to 0)")
                if f.get("foreign_after") != "1":
                    bad.append("a foreign SIGBUS after the scans did not reach the application's handler (foreign_after=%s)" % f.get("foreign_after"))
                if bad:
                    chk.violation("parking_%s_%s.json" % (fl, cid), {"kind": "concurrent-scan-differs", "engine": "conc", "harness": "h_conc", "flavour": fl, "case": byid.get(cid),
                                                                     "implementation": l, "model_spec": "; ".join(bad)})
                    found = True
                continue
            if " L " in l[:len(cid) + 3]:
                hist["%s:lifetime:threads=%s" % (fl, f.get("n"))] += 1
                nscans += 2 * int(f.get("n", "0")) + 1
                nontrivial.add(byid.get(cid, cid).split(" ", 1)[1])
                bad = []
                if f.get("nested_init") != "OK" or f.get("nested_finalize") != "OK":
                    bad.append("nested yr_initialize/yr_finalize returned %s/%s" % (f.get("nested_init"), f.get("nested_finalize")))
                if f.get("fault_alone") != "COULD_NOT_MAP_FILE":
                    bad.append("faulting scan run alone returned %s" % f.get("fault_alone"))
                if not f.get("fault_after", "").endswith("other:0"):
                    bad.append("holder_sees_library_alive: after another user dropped its reference, faulting scans of the remaining user gave %s (first other: %s) "
                               "instead of COULD_NOT_MAP_FILE as when run alone" % (f.get("fault_after"), f.get("first_other")))
                if f.get("handler_outside_bad") != "0":
                    bad.append("old_handler_restored_at_zero: the application's SIGBUS handler was not in place afterwards")
                if f.get("foreign_after", "1") != "1":
                    bad.append("a foreign SIGBUS after the faulting scans did not reach the application's handler (foreign_after=%s)" % f.get("foreign_after"))
                if bad:
                    chk.violation("lifetime_%s.json" % cid, {"kind": "library-lifetime", "engine": "conc", "harness": "h_conc", "flavour": fl, "case": byid.get(cid),
                                                             "implementation": l, "model_spec": "; ".join(bad)})
                    found = True
                continue
            if "mismatch" not in f:
                continue
            hist["%s:threads=%s" % (fl, f["n"])] += 1
            nscans += int(f["scans"])
            ro_cases += f["ro"] == "1"
            for kv in f.get("rcs", "").strip(",").split(","):
                if ":" in kv: rcs[kv.split(":")[0]] += int(kv.split(":")[1])
            for kv in f.get("kinds", "").strip(",").split(","):
                if ":" in kv: kinds[kv.split(":")[0]] += int(kv.split(":")[1])
            if int(f["n"]) >= 2 and len([1 for kv in f.get("kinds", "").split(",") if kv]) >= 2:
                nontrivial.add(byid.get(cid, cid).split(" ", 1)[1])
            if len(samples) < 2:
                samples.append({"case": byid.get(cid), "implementation": l[:300]})
            problems = []
            if f["mismatch"] != "0":
                problems.append("noninterference/deterministic_result: %s scan(s) differ from the single-threaded trace (%s)" % (f["mismatch"], f.get("first", "")))
            if f["rules_hash"] != "same":
                problems.append("rules_immutable: the rule arena changed during scans")
            if f["handler_inside_bad"] != "0":
                problems.append("handler_installed_iff_count_pos: %s scan(s) ran with the application's SIGBUS handler still installed" % f["handler_inside_bad"])
            if f.get("chain_bad", "0") != "0":
                problems.append("%s scan(s) did not enumerate (yr_string_matches_foreach) both planted occurrences of the chained hex string of rule `chain`" % f["chain_bad"])
            if f.get("fd_delta", "0") != "0":
                problems.append("the number of open descriptors of the process changed by %s over the scenario (descriptor leak; unmappable-file scans: %s)" %
                                (f["fd_delta"], f.get("unmappable")))
            if f.get("fd_bad", "0") != "0":
                problems.append("a thread's own file descriptor was closed or replaced by yr_*_scan_fd (%s check(s) failed: fstat / size / close after the scan)" % f["fd_bad"])
            if f.get("foreign_after", "1") != "1":
                problems.append("a foreign SIGBUS after all scans returned did not reach the application's handler (foreign_after=%s)" % f.get("foreign_after"))
            if f["handler_outside_bad"] != "0":
                problems.append("old_handler_restored_at_zero: the application's SIGBUS handler was not in place after all scans returned")
            if problems:
                chk.violation("conc_%s.json" % cid, {"kind": "concurrent-scan-differs", "engine": "conc", "harness": "h_conc", "flavour": fl, "case": byid.get(cid),
                                                     "implementation": l, "model_spec": "; ".join(problems)})
                found = True
        missing = [c for c in cases if c.split(" ", 1)[0] not in answered]
        # leaks reported by LeakSanitizer at exit (exit code 99 with every case answered): listed findings are matched by the libyara function that allocated
        leak_known = False
        if fl.startswith("asan") and rc == 99 and not missing and "LeakSanitizer" in err:
            allocs = []
            for blk in re.split(r"\n(?=(?:Direct|Indirect) leak of)", err):
                if not blk.startswith(("Direct", "Indirect")):
                    continue
                fns = [f2 for f2, p2 in re.findall(r"#\d+ 0x[0-9a-f]+ in (\S+) (\S+)", blk) if "/libyara/" in p2 and f2 not in ("yr_malloc", "yr_calloc", "yr_realloc")]
                ctx = "fault_scan" if re.search(r" in fault_scan(_v)? ", blk) else "other"
                allocs.append((fns[0] if fns else "-", ctx, "yr_execute_code" in fns))
            kl = [f for f in known if f["signature"].get("kind") == "memory-leak"]
            # listed: allocated by (or anywhere below) yr_execute_code in a scan that ended with a memory fault — siglongjmp skips every epilogue on the way
            unk = [a for a in allocs if not any((a[0] in f["signature"].get("functions", []) or (f["signature"].get("below") == "yr_execute_code" and a[2]))
                                                and a[1] == f["signature"].get("context") for f in kl)]
            hist["asan-leak-blocks"] = len(allocs)
            if allocs and not unk:
                leak_known = True
                chk.known(kl[0], "%s LeakSanitizer: %d leaked block group(s) allocated in %s by scans that ended with a memory fault" %
                          (kl[0]["id"], len(allocs), "/".join(sorted({a[0] for a in allocs}))))
        reports = tsan_reports(err) if fl.startswith("tsan") else []
        bysig = collections.defaultdict(list)
        for kind, fns, blk in reports:
            bysig[(kind, fns)].append(blk)
        n = 0
        for (kind, fns), blks in sorted(bysig.items()):
            hist["tsan-report:%s@%s" % (kind, "/".join(fns))] += len(blks)
            kf = [f for f in known if f["signature"].get("kind") == kind and tuple(f["signature"].get("functions", [])) == fns]
            if kf:
                chk.known(kf[0], "%s ThreadSanitizer %s in %s (%d report(s))" % (kf[0]["id"], kind, "/".join(fns), len(blks)))
            else:
                n += 1
                chk.violation("tsan_%d.json" % n, {"kind": "thread-sanitizer-report", "engine": "conc", "harness": "h_conc", "flavour": fl,
                                                   "case": cases[0] if len(cases) == 1 else None, "cases": cases, "signature": {"kind": kind, "functions": list(fns)},
                                                   "implementation": blks[0], "model_spec": "no data race on shared state"})
                found = True
        if missing or (rc != 0 and not (fl.startswith("tsan") and rc == 66 and reports) and not leak_known):
            # the process died: with read-only rules a write to the shared rule set is a SEGV with a WRITE access in the sanitizer's report
            wr = "WRITE memory access" in err or "WRITE" in err
            chk.violation("died_%s.json" % fl, {"kind": "write-to-shared-rules" if wr else "harness-died", "engine": "conc", "harness": "h_conc", "flavour": fl,
                                                "case": missing[0] if missing else None, "rc": rc, "implementation": err[-4000:],
                                                "model_spec": "frame hypothesis of Thm/C09.noninterference: scans never write to the shared rule set"
                                                if wr else "all cases answered, exit code 0"})
            found = True
    core.handle_broken_proof(chk, lres, found)
    chk.cov.update({
        "evaluations": nscans * 2, "distinct_nontrivial": len(nontrivial),
        "rule": "evaluations = scans executed (each once alone, once concurrently); a case is non-trivial when >= 2 threads of >= 2 different kinds "
                "(scanner/rules-level, memory/file, abort, callback error, open error, timeout, reuse, fast mode) ran concurrently",
        "samples": samples, "cases_by_flavour_and_threads": dict(hist), "scan_result_codes": dict(rcs), "thread_kinds": dict(kinds),
        "cases_with_read_only_rules": ro_cases, "traces_validated_against_impl": nscans,
    })
    chk.assumptions += ["frame hypothesis of the model (scan steps read the rules and write only their own scanner) — checked by read-only mappings on the scenarios run",
                        "the application does not change SIGBUS/SIGSEGV dispositions while scans are running",
                        "data races are those ThreadSanitizer can observe on the executed schedules (fixed iteration counts, no wall-clock assertion; the one "
                        "timing-out scan sleeps 1.6 s in its callback against a 1 s timeout)"]
    return chk.finish("proof")
