"""C15 — engine limits: for each limit L the real code is run at L-1, L, L+1 and far beyond
(default build and a build variant with small `-D` overrides) and diffed against the outcome
predicted by the Lean model (Thm/C15.lean proves the guards for all sizes); timeouts are run
against a deadline + generous delta with a watchdog."""
import os, subprocess, time, json
from vf import core

THM = ["YaraModel.Thm.C15"]
MANIFEST = dict(
    technique="Lean 4 proofs of every limit guard for all sizes (translator-generated operators/constants) + boundary correspondence "
              "(L-1, L, L+1, >>L) against the real code in two build variants + watchdog-bounded timeout runs",
    text="proof (counting limits) / partial (timeliness): Thm/C15.lean proves, for every value of each limit and every input sequence, the guard "
         "logic of the match-list cap incl. the warning negotiation, mute bit and frame property (other strings' lists unaffected), VM stack bound, "
         "loop nesting, include depth, strings per rule, identifier length, integer literal range, regex split ids, fiber pool and the timeout "
         "cadence (clock read every N instructions / every S bytes, for any instruction sequence however it is cut into rules: no opcode writes "
         "the counter), history-free literal acceptance (every literal rule clears errno before its strtoll) and the configuration set/get round "
         "trip, files of one compiler independent of each other at the include-depth limit (name popped under the condition it was pushed), one "
         "deadline per resumed scan (stopwatch not restarted on resume), every string of a rule counted; operators, constants and these structural "
         "facts are regenerated from the C source on every run. "
         "The model is tied to the code by running each limit at L-1, L, L+1, >>L through the real API (and _yr_scan_add_match_to_list, "
         "_yr_re_fiber_create, yr_re_ast_emit_code directly) and diffing with the model's prediction, plus 'library usable afterwards' and "
         "'results of rule B with/without the limit-hitting rule A'; literal boundaries also in SEQUENCES (rejected literals / underflowing floats "
         "first: fresh compilers, same compiler, same source); a third of the cases that configure a limit do so around nested "
         "yr_initialize()/yr_finalize() and read the configuration back; strings-per-rule with referenced / anonymous / unreferenced `$_` strings; "
         "include depth also through yr_compiler_add_file with several files per compiler; block timeouts also over a non-blocking iterator "
         "(ERROR_BLOCK_NOT_READY, resumed). Timeliness of timeouts is only sampled (10 rule shapes incl. hundreds "
         "of short expensive rules, deadline + delta).",
    design_ref="DESIGN.md §5 C15",
    note=core.TB + "Wall-clock bound of timeouts is a sampled liveness check (delta 5 s); the cost of one candidate verification / one module call "
                   "between two clock reads is not bounded by any model. Regex model covers the fragment lit/any/class/cat/alt/star/plus/range.")

SMALL = dict(YR_MAX_STRING_MATCHES=8, YR_SLOW_STRING_MATCHES=6, YR_MAX_LOOP_NESTING=2, YR_MAX_INCLUDE_DEPTH=3,
             RE_MAX_SPLIT_ID=5, RE_MAX_FIBERS=6)
SMALL_DEFS = " ".join("-D%s=%d" % kv for kv in sorted(SMALL.items()))
DELTA = 5.0          # seconds a timed-out scan may return after its deadline
ENV = {"ASAN_OPTIONS": "detect_leaks=0:abort_on_error=0:exitcode=99:allocator_may_return_null=1"}


def hx(s):
    return s.encode().hex() if s else "-"


class Gen:
    """Case generator for one build variant. `c` = constants of that build; `explicit` adds L= keys
    (variant build) so that the model uses the variant's limit instead of the generated default."""

    def __init__(self, r, c, explicit, tier, prefix):
        self.r, self.c, self.explicit, self.tier, self.prefix = r, c, explicit, tier, prefix
        self.cases = []
        self.n = 0

    def add(self, kind, body):
        # every third case that configures a limit does so while "another component" of the process also uses the library:
        # nested yr_initialize()/yr_finalize() between yr_set_configuration and the use of the limit (h_limits.c nested_use)
        if body.startswith(("compile ", "scan ")) and any(k in body for k in (" ss=", " mspr=", " mmd=")):
            self.ncfg = getattr(self, "ncfg", 0) + 1
            if self.ncfg % 3 == 0:
                body += " nest=%d nestopen=%d" % (self.r.choice([1, 1, 2]), self.r.choice([0, 1]))
                if self.r.random() < 0.3:
                    body += " chunk=%d" % self.r.choice([4096, 2 ** 32 + 4096, self.r.randint(1, 2 ** 40)])
        self.cases.append("%s%s%d %s" % (self.prefix, kind, self.n, body))
        self.n += 1

    def L(self, name):
        return " L=%d" % self.c[name] if self.explicit else ""

    def around(self, L, far=None):
        vals = [L - 1, L, L + 1, far if far is not None else 2 * L + 3]
        return [v for v in vals if v >= 0]

    # ---- function level
    def ml(self):
        L = self.c["YR_MAX_STRING_MATCHES"]
        for n in self.around(L):
            self.add("ml", "ml asc=%d rep=%d%s" % (n, self.r.randint(0, 1), self.L("YR_MAX_STRING_MATCHES")))
        if L <= 64:
            for _ in range(300 if self.tier == "quick" else 3000):
                k = self.r.choice([0, 1, L - 1, L, L + 1, L + 4, self.r.randint(0, 3 * L)])
                dom = self.r.choice([3, L, L + 2, 3 * L])
                offs = ",".join("%d:%d" % (self.r.randint(0, dom), self.r.randint(1, 5)) for _ in range(k)) or "-"
                self.add("ml", "ml offs=%s rep=%d%s" % (offs, self.r.randint(0, 1), self.L("YR_MAX_STRING_MATCHES")))

    def fib(self):
        L = self.c["RE_MAX_FIBERS"]
        for n in self.around(L):
            self.add("fib", "fib n=%d%s" % (n, self.L("RE_MAX_FIBERS")))
        for _ in range(100 if self.tier == "quick" else 1000):
            k = self.r.randint(0, 4 * min(L, 40))
            pc = self.r.choice([0.5, 0.7, 0.9])
            ops = "".join("c" if self.r.random() < pc else "r" for _ in range(k))
            if L <= 64 or self.r.random() < 0.2:
                self.add("fib", "fib ops=%s%s" % (ops or "x", self.L("RE_MAX_FIBERS")))

    # ---- regular expressions
    def re_ast(self, depth):
        u = self.r.random()
        if depth == 0 or u < 0.25:
            return self.r.choice(["l", "l", "c", "y"])
        if u < 0.45:
            return "C" + self.re_ast(depth - 1) + self.re_ast(depth - 1)
        if u < 0.6:
            return "A" + self.re_ast(depth - 1) + self.re_ast(depth - 1)
        if u < 0.7:
            return "S" + self.re_ast(depth - 1)
        if u < 0.8:
            return "P" + self.re_ast(depth - 1)
        lo = self.r.choice([0, 0, 1, 1, 2, 3, 4, 7])
        hi = self.r.choice([lo, lo + 1, lo + 2, lo + 5, 32767]) if self.r.random() < 0.9 else lo
        hi = max(hi, 1)
        a = self.re_ast(depth - 1)
        if a == "y":
            a = "l"          # `.{n,m}` is a different node type (RE_NODE_RANGE_ANY), outside the modelled fragment
        return "R%d,%d;%s" % (lo, hi, a)

    def re_text(self, ast, fixed=False):
        """prefix AST -> (regex text, rest); fixed: literals are `a`, classes `[ab]` (so that a run of a's matches)"""
        import sys
        sys.setrecursionlimit(max(sys.getrecursionlimit(), 20000))
        pos = [0]

        def go():
            t = ast[pos[0]]; pos[0] += 1
            if t == "l":
                return "a" if fixed else self.r.choice("abcdefgh")
            if t == "y":
                return "."
            if t == "c":
                return "[ab]" if fixed else "[%s%s]" % (self.r.choice("abc"), self.r.choice("xyz"))
            if t == "C":
                a = go(); b = go()
                return a + b
            if t == "A":
                a = go(); b = go()
                return "(%s|%s)" % (a, b)
            if t in "SP":
                a = go()
                return "(%s)%s" % (a, "*" if t == "S" else "+")
            if t == "R":
                semi = ast.index(";", pos[0])
                lo, hi = ast[pos[0]:semi].split(",")
                pos[0] = semi + 1
                a = go()
                lo, hi = int(lo), int(hi)
                if (lo, hi) == (0, 1) and self.r.random() < 0.7:
                    q = "?"
                elif hi == 32767:
                    q = "{%d,}" % lo
                elif lo == hi and self.r.random() < 0.5:
                    q = "{%d}" % lo
                elif lo == 0 and self.r.random() < 0.3:
                    q = "{,%d}" % hi
                else:
                    q = "{%d,%d}" % (lo, hi)
                return "(%s)%s" % (a, q)
            raise ValueError(ast)

        txt = go()
        return txt, ast[pos[0]:]

    def cat(self, items):
        if not items:
            return "l"
        out = items[-1]
        for it in reversed(items[:-1]):
            out = "C" + it + out
        return out

    def regex(self):
        L = self.c["RE_MAX_SPLIT_ID"]
        lk = self.L("RE_MAX_SPLIT_ID")
        # split-id boundary, several constructs contributing a known number of splits
        for k in self.around(L, far=3 * L + 7):
            for unit in ("R0,1;l", "Sl", "Pl", "All"):
                ast = self.cat(["l"] * 4 + [unit] * k)
                txt, _ = self.re_text(ast)
                self.add("re", "re ast=%s re=%s bw=%d%s" % (ast, hx(txt), self.r.randint(0, 1), lk))
                rule = "rule r { strings: $a = /%s/ condition: $a }" % txt
                self.add("rs", "compile m=resplit ast=%s text=%s%s" % (ast, hx(rule), lk))
        # nested ranges multiply the splits of their child
        for lo, hi in ((2, 4), (1, 3), (0, 2), (3, 3), (1, 1), (2, 2), (0, 1), (4, 9)):
            for k in (1, 2, 3, L // 4, L // 3, L // 2, L):
                if k < 1:
                    continue
                ast = self.cat(["l"] * 4 + ["R%d,%d;%s" % (lo, hi, self.cat(["All"] * k))])
                txt, _ = self.re_text(ast)
                if len(txt) < 7000:
                    self.add("re", "re ast=%s re=%s%s" % (ast, hx(txt), lk))
        # nested exact repeats triple the code at every level (no split, no jump: none of the size guards applies)
        for d in (1, 2, 4, 7, 10):
            ast = "Cl" * 4 + "R3,3;" * d + "l"
            txt, _ = self.re_text(ast)
            self.add("re", "re ast=%s re=%s%s" % (ast, hx(txt), lk))
        # code-size boundary (jump offsets are int16): n classes of 34 bytes under star / plus / alt / optional
        if not self.explicit:
            for wrap in ("S%s", "P%s", "A%sl", "Al%s", "R0,1;%s", "R1,2;%s", "R2,2;%s"):
                for n in (950, 960, 961, 962, 963, 964, 965, 966, 970) if self.tier == "quick" else range(940, 985):
                    ast = self.cat(["l"] * 4 + [wrap % self.cat(["c"] * n)])
                    txt, _ = self.re_text(ast)
                    if len(txt) < 8000:
                        self.add("re", "re ast=%s re=%s%s" % (ast, hx(txt), lk))
            # every size guard at its exact boundary: bodies of exactly N bytes (classes 34, literals 2, `.` 1) for a window
            # of N around 32760 so that each guard sees distance bound-1, bound, bound+1 (function level: size or TOO_LARGE;
            # API level for a few of them: compile + scan under ASan)
            def body_of(nbytes):
                a, rest = divmod(nbytes, 34)
                while a > 960:          # keep the text below the lexer buffer: trade classes for literals only when needed
                    a -= 1; rest += 34
                lits, dots = divmod(rest, 2)
                return self.cat(["c"] * a + ["l"] * lits + ["y"] * dots)
            window = range(32752, 32772) if self.tier == "quick" else range(32700, 32800)
            for wrap in ("S%s", "P%s", "A%sl", "Al%s", "R0,1;%s", "R1,2;%s"):
                for nb in window:
                    ast = self.cat(["l"] * 4 + [wrap % body_of(nb)])
                    txt, _ = self.re_text(ast)
                    if len(txt) < 8100:
                        self.add("re", "re ast=%s re=%s%s" % (ast, hx(txt), lk))
                        if nb in (32759, 32760, 32761, 32762, 32764, 32765):
                            ftxt, _ = self.re_text(ast, fixed=True)
                            rule = "rule r { strings: $a = /%s/ condition: $a or true }\nrule q { condition: r }" % ftxt
                            self.add("rx", "scan m=rebound ast=%s text=%s buf=61*3000 show=q%s" % (ast, hx(rule), lk))
            ast = self.cat(["l"] * 4 + ["S" + self.cat(["c"] * 1200)])
            txt, _ = self.re_text(ast)
            self.add("rs", "compile m=resplit ast=%s text=%s%s" % (ast, hx("rule r { strings: $a = /%s/ condition: $a }" % txt), lk))
        # random expressions of the fragment: code size and split count must agree exactly
        for _ in range(600 if self.tier == "quick" else 6000):
            ast = self.re_ast(self.r.randint(1, 5))
            if ast == "y":
                continue
            txt, _ = self.re_text(ast)
            if len(txt) < 4000:
                self.add("re", "re ast=%s re=%s bw=%d%s" % (ast, hx(txt), self.r.randint(0, 1), lk))

    # ---- compile level
    def loops(self):
        L = self.c["YR_MAX_LOOP_NESTING"]

        def dyck(maxd, d=0):
            s = ""
            while self.r.random() < (0.75 if d == 0 else 0.35):
                if d < maxd:
                    s += "(" + dyck(maxd, d + 1) + ")"
            return s

        def force(d):
            return "(" * d + ")" * d

        shapes = [force(d) for d in self.around(L, far=L + 5)] + [force(L) + force(L), force(1) + force(L + 1), force(L + 1) + force(1)]
        for _ in range(100 if self.tier == "quick" else 600):
            md = self.r.choice([L - 1, L, L, L + 1, L + 2])
            s = dyck(max(md, 1))
            if self.r.random() < 0.5:
                k = self.r.choice([L, L + 1])
                s = s + force(k) if self.r.random() < 0.5 else force(k) + s
            shapes.append(s or "()")
        for s in shapes:
            cnt = [0]

            def text(w):
                # w: Dyck word -> conjunction of for-loops
                parts, i = [], 0
                while i < len(w):
                    depth, j = 0, i
                    while True:
                        depth += 1 if w[j] == "(" else -1
                        j += 1
                        if depth == 0:
                            break
                    inner = text(w[i + 1:j - 1])
                    cnt[0] += 1
                    kind = self.r.random()
                    if kind < 0.6:
                        parts.append("for any i%d in (0..1) : ( %s )" % (cnt[0], inner))
                    elif kind < 0.8:
                        parts.append("for all i%d in (1,2,3) : ( %s )" % (cnt[0], inner))
                    else:
                        parts.append("for 1 i%d in (0..2) : ( %s )" % (cnt[0], inner))
                    i = j
                return " and ".join(parts) if parts else "true"

            rule = "rule r { condition: %s }" % text(s)
            self.add("lp", "compile m=loops shape=%s text=%s%s" % (s, hx(rule), self.L("YR_MAX_LOOP_NESTING")))

    def idents(self):
        if self.explicit:
            return
        for n in [1, 127, 128, 129, 130, 200, 1000, 5000] + [self.r.randint(120, 136) for _ in range(6)]:
            ident = self.r.choice("abcXYZ_") + "".join(self.r.choice("abcxyz019_") for _ in range(n - 1))
            place = self.r.choice(["rule", "tag", "meta", "loopvar", "ext", "rule"])
            if place == "rule":
                rule = "rule %s { condition: true }" % ident
            elif place == "tag":
                rule = "rule r : %s { condition: true }" % ident
            elif place == "meta":
                rule = "rule r { meta: %s = 1 condition: true }" % ident
            elif place == "loopvar":
                rule = "rule r { condition: for any %s in (0..1) : ( %s == 0 ) }" % (ident, ident)
            else:
                rule = "rule r { condition: %s == 1 }" % ident
                self.add("id", "compile m=ident n=%d place=%s ext=%s text=%s" % (n, place, ident, hx(rule)))
                continue
            self.add("id", "compile m=ident n=%d place=%s text=%s" % (n, place, hx(rule)))

    def intlits(self):
        if self.explicit:
            return
        M = 2 ** 63 - 1
        vals = []
        for suf, mult in (("none", 1), ("kb", 1024), ("mb", 1048576)):
            b = M // mult
            vals += [(v, suf) for v in (0, 1, b - 1, b, b + 1, b + 2, 2 * b, M, M + 1, 2 ** 64 - 1, 2 ** 64, 10 ** 30)]
            vals += [(self.r.randint(max(b - 5, 0), b + 5), suf) for _ in range(4)]
        for v, suf in vals:
            base = self.r.choice([10, 16, 8]) if suf == "none" else 10
            txt = {10: "%d", 16: "0x%x", 8: "0o%o"}[base] % v + {"none": "", "kb": "KB", "mb": "MB"}[suf]
            rule = "rule r { condition: %s >= 0 }" % txt
            self.add("il", "compile m=intlit value=%d suf=%s lit=%s text=%s" % (v, suf, txt, hx(rule)))

    def literal_sequences(self):
        # the literal range again, but with HISTORY: rejected literals (dec/hex/oct beyond INT64_MAX) and underflowing float
        # literals come first — in earlier compilations on the same thread (fresh compilers), earlier in the same compiler,
        # earlier in the same source — then the boundary literal L-1 / L / L+1 in every base
        if self.explicit:
            return
        M = 2 ** 63 - 1
        fmt = {10: "%d", 16: "0x%x", 8: "0o%o"}
        tiny = "0." + "0" * 400 + "1"
        uid = [0]

        def lit_src(v, base, suf="n"):
            uid[0] += 1
            txt = fmt[base] % v + {"n": "", "k": "KB", "m": "MB"}[suf]
            return "rule r%d { condition: %s >= 0 }" % (uid[0], txt), "%d%s" % (v, suf)

        def float_src():
            uid[0] += 1
            return "rule r%d { condition: %s < 1.0 }" % (uid[0], tiny), "f"

        def float_lit_src(v, base):
            uid[0] += 1
            return "rule r%d { condition: %s < 1.0 and %s >= 0 }" % (uid[0], tiny, fmt[base] % v), "f+%dn" % v

        def emit(steps):
            self.add("lq", "litseq steps=%s seq=%s" % (",".join("%s/%s" % (m, d) for m, (src, d) in steps),
                                                       ",".join(m + hx(src) for m, (src, d) in steps)))
        rejected = [(M + 1, 10), (2 ** 63, 16), (2 ** 63, 8), (10 ** 30, 10), (2 ** 64, 16), (2 ** 70, 8)]
        # 1. fresh compilers: every rejected prelude, then every boundary value in every base
        for pv, pb in rejected:
            for base in (10, 16, 8):
                steps = []
                for v in (M, M - 1, M + 1, M):
                    steps += [("n", lit_src(pv, pb)), ("n", lit_src(v, base))]
                emit(steps)
        # 2. the same compiler: sources with an underflowing float first, then the boundary literals, ending with a rejected one
        for base in (10, 16, 8):
            emit([("n", float_src()), ("c", lit_src(M, base)), ("c", lit_src(M - 1, base)), ("c", float_src()), ("c", lit_src(M, base)),
                  ("c", lit_src(M + 1, base)), ("c", lit_src(M, base)), ("c", lit_src(1, base))])
            # 3. the same source
            emit([("n", float_lit_src(M, base)), ("n", float_lit_src(M - 1, base)), ("n", float_lit_src(M + 1, base)), ("c", float_lit_src(M, base))])
        # 4. suffixes after a rejected literal
        for suf, mult in (("k", 1024), ("m", 1048576)):
            b = M // mult
            emit([("n", lit_src(M + 1, 10)), ("n", lit_src(b, 10, suf)), ("n", lit_src(b + 1, 10, suf)), ("c", lit_src(b, 10, suf)), ("n", lit_src(M, 8))])
        # 5. random sequences
        for _ in range(30 if self.tier == "quick" else 300):
            steps = []
            for i in range(self.r.randint(2, 8)):
                m = self.r.choice("nc")
                u = self.r.random()
                base = self.r.choice([10, 16, 8])
                v = self.r.choice([M, M, M - 1, M + 1, 2 ** 63, 2 ** 64 - 1, 2 ** 64, 0, 1, self.r.randint(M - 3, M + 3)])
                if u < 0.2:
                    steps.append((m, float_src()))
                elif u < 0.35:
                    steps.append((m, float_lit_src(v, base)))
                else:
                    steps.append((m, lit_src(v, base)))
            emit(steps)

    def includes(self):
        L = self.c["YR_MAX_INCLUDE_DEPTH"]
        shapes = []
        for top in (None, "main.yar"):
            k = 1 if top else 0
            for d in self.around(L - k, far=2 * L):
                shapes.append((d, top, None))
        for _ in range(30 if self.tier == "quick" else 200):
            d = self.r.choice([1, 2, L - 1, L, L + 1])
            top = self.r.choice([None, "main.yar"])
            circ = self.r.choice([None, None, self.r.randint(1, max(d, 1))])
            shapes.append((max(d, 1), top, circ))
        for d, top, circ in shapes:
            names = ["f%d" % i for i in range(1, d + 1)]
            parts = []
            for i in range(1, d + 1):
                body = "rule r%d { condition: true }\n" % i
                if i < d:
                    body = 'include "f%d"\n' % (i + 1) + body
                elif circ is not None:
                    body = 'include "f%d"\n' % circ + body
                parts.append("inc=f%d:%s" % (i, hx(body)))
            chain = names + (["f%d" % circ] if circ is not None else [])
            text = ('include "f1"\n' if d > 0 else "") + "rule r0 { condition: true }"
            self.add("in", "compile m=incl names=%s top=%s text=%s %s%s" % (",".join(chain), top or "-", hx(text), " ".join(parts),
                                                                         self.L("YR_MAX_INCLUDE_DEPTH")))

    def file_sequences(self):
        # the include-depth limit through yr_compiler_add_file (file name given, NULL namespace: what the command-line tool does),
        # SEVERAL files per compiler: depth at the limit in the 1st / 2nd / 3rd file, many plain files, a repeated file name
        L = self.c["YR_MAX_INCLUDE_DEPTH"]
        seqs = []
        for pos in (0, 1, 2):
            for d in (L - 2, L - 1, L, 2 * L):
                fs = [("f%d.yar" % i, 1 if i != pos else max(d, 0)) for i in range(pos + 1)]
                seqs.append(fs)
                seqs.append(fs + [("last.yar", max(L - 1, 0))])
        seqs.append([("p%d.yar" % i, 0) for i in range(40)])
        seqs.append([("p%d.yar" % i, 0) for i in range(L + 1)] + [("deep.yar", L - 1)])
        seqs.append([("p%d.yar" % i, i % 3) for i in range(2 * L + 3)])
        seqs.append([("a.yar", 0), ("a.yar", 0)])
        seqs.append([("a.yar", 2), ("b.yar", 1), ("a.yar", 2), ("a.yar", L - 1)])
        for _ in range(20 if self.tier == "quick" else 150):
            seqs.append([(self.r.choice(["a.yar", "b.yar", "c.yar", "dir/d.yar"]), self.r.choice([0, 0, 1, 2, L - 2, L - 1, L]))
                         for _ in range(self.r.randint(1, L + 4))])
        for fs in seqs:
            self.add("fq", "fileseq m=fileseq files=%s%s" % (",".join("%s:%d" % f for f in fs), self.L("YR_MAX_INCLUDE_DEPTH")))

    def strings_per_rule(self):
        if self.explicit:
            return
        cfgs = [(M, n) for M in (0, 1, 2, 5, 16) for n in self.around(M, far=3 * M + 10)]
        cfgs += [(self.c["DEFAULT_MAX_STRINGS_PER_RULE"], n) for n in self.around(self.c["DEFAULT_MAX_STRINGS_PER_RULE"], far=None)[:3]]
        for _ in range(25 if self.tier == "quick" else 200):
            M = self.r.randint(0, 40)
            cfgs.append((M, self.r.choice([M - 1, M, M + 1, self.r.randint(0, 60)])))
        # how the strings are named / used: the limit counts EVERY string of the rule —
        #   ref: all referenced (`any of them`);  anon: anonymous `$` strings;  unref: all unreferenced `$_u…` (condition `true`);
        #   tail_unref: the first min(n, M) referenced, the surplus unreferenced;  head_unref: unreferenced first, the surplus referenced;
        #   mixed: each string referenced or unreferenced at random
        shapes = ["ref", "anon", "unref", "tail_unref", "head_unref", "mixed"]
        cfgs = [(M, n, sh) for (M, n) in cfgs[:len(cfgs) - (25 if self.tier == "quick" else 200)] for sh in shapes if M < 1000 or sh in ("ref", "tail_unref")] + \
               [(M, n, self.r.choice(shapes)) for (M, n) in cfgs[len(cfgs) - (25 if self.tier == "quick" else 200):]]
        for M, n, shape in cfgs:
            if n < 0:
                continue
            parts, decl, refd = [], [], []
            total = 0
            i = 0
            while total < n:
                pieces = 1
                if n - total >= 3 and M < 1000 and self.r.random() < 0.2:
                    pieces = self.r.choice([2, 3])
                unref = {"ref": False, "anon": False, "unref": True, "tail_unref": total >= M, "head_unref": total < max(n - M, 1) and n > 1,
                         "mixed": self.r.random() < 0.5}[shape]
                name = "$" if shape == "anon" else ("$_u%d" % i if unref else "$s%d" % i)
                if not unref and shape != "anon":
                    refd.append(name)
                if pieces == 1:
                    decl.append('%s = "str%06d"' % (name, i))
                else:
                    gaps = " ".join("[300] %02x %02x %02x %02x" % (i % 251, 7, j, 9) for j in range(pieces - 1))
                    decl.append("%s = { %02x 02 03 04 %s }" % (name, i % 251, gaps))
                parts.append(pieces); total += pieces; i += 1
            default = M == self.c["DEFAULT_MAX_STRINGS_PER_RULE"]
            if n == 0:
                rule = "rule r { condition: true }"
            elif shape in ("ref", "anon"):
                rule = "rule r { strings: %s condition: any of them }" % " ".join(decl)
            else:
                rule = "rule r { strings: %s condition: %s }" % (" ".join(decl), ("any of ($s*)" if refd else "true"))
            self.add("sp", "compile m=spr%s parts=%s shape=%s text=%s" % ("" if default else " M=%d mspr=%d" % (M, M), ",".join(map(str, parts)) or "0", shape, hx(rule)))

    # ---- scan level
    def stack(self):
        if self.explicit:
            return
        for _ in range(120 if self.tier == "quick" else 800):
            S = self.r.choice([0, 1, 2, 3, 4, 5, 8, 13, 64, 300])
            # random expression tree over `filesize` and `+`; right-nesting makes the stack deep
            need = self.r.choice([S - 1, S, S + 1, S + 2, self.r.randint(1, S + 6)])
            need = max(1, need)

            def build(depth):
                # (infix, postfix) of an expression whose evaluation peaks at about `depth` slots:
                # a right-nested spine (each level keeps one operand waiting) with small left operands
                infix, post, cur = "filesize", "f", 1
                while cur < depth:
                    u = self.r.random()
                    if u < 0.7:
                        infix, post, cur = "filesize + (%s)" % infix, "f" + post + "+", cur + 1
                    elif u < 0.85:
                        infix, post = "(%s) + filesize" % infix, post + "f+"
                    else:
                        infix, post, cur = "(filesize + filesize) + (%s)" % infix, "ff+" + post + "+", cur + 1
                return infix, post

            infix, post = build(need)
            rule = "rule r { condition: %s > 0 }" % infix
            self.add("st", "scan m=stack S=%d ss=%d prog=%s text=%s buf=61*10" % (S, S, post, hx(rule)))
        # default configuration (no yr_set_configuration): the generated default capacity applies
        for need in (600, 1500):
            infix, post = build(need)
            self.add("st", "scan m=stack prog=%s text=%s buf=61*10" % (post, hx("rule r { condition: %s > 0 }" % infix)))

    def fiber_reuse(self):
        # a regexp whose nested counted repeats keep far more than RE_MAX_FIBERS fibers alive on the hostile buffer;
        # the SAME scanner scans benign data before and after it
        if self.explicit:
            return          # with the variant's tiny fiber limit ordinary regexps already exceed it
        L = self.c["RE_MAX_FIBERS"]
        n = 2
        while n * n < 6 * L:
            n += 1
        n = min(n, 120)
        rules = ('rule h { strings: $a = /head([ab]{1,%d}){1,%d}Q/ condition: $a }\n'
                 'rule s { strings: $b = /SN[0-9]{3,6}x/ condition: $b }\n'
                 'rule j { strings: $c = { 41 42 [1-3] ( 43 | 44 ) 45 } condition: $c }') % (n, n)
        benign = "%s+%s" % (b"..SN12345x..ABzzCE..head".hex(), b"ab".hex() + "*3")
        hostile = "%s+%s*%d" % (b"head".hex(), b"ab".hex(), 4 * n)
        for seq in ("1,2,1,1", "2,1", "1,2,2,1", "1,1"):
            self.add("fr", "scanseq m=fibers need1=1 need2=%d seq=%s text=%s buf=%s buf2=%s%s" % (10 * L + 7, seq, hx(rules), benign, hostile, self.L("RE_MAX_FIBERS")))

    def tmm_reuse(self):
        # variant build (small YR_MAX_STRING_MATCHES): a string with a given index hits the limit (callback answers CONTINUE, the
        # string is muted for that scan), then the SAME scanner scans data in which that string must be reported again
        if not self.explicit:
            return
        L = self.c["YR_MAX_STRING_MATCHES"]
        for nrules, nstr in ((1, 131), (3, 131), (1, 66), (2, 70), (70, 70)):
            for idx in (0, 63, 64, 65, nstr - 1):
                per = (nstr + nrules - 1) // nrules
                rules = []
                for r_ in range(nrules):
                    ids = range(r_ * per, min(nstr, (r_ + 1) * per))
                    if not ids:
                        continue
                    rules.append("rule r%d { strings: %s condition: any of them }" % (r_, " ".join('$s%d = "k%03d"' % (i, i) for i in ids)))
                tok = ("k%03d" % idx).encode().hex()
                other = ("k%03d" % ((idx + 1) % nstr)).encode().hex()
                hostile = "%s*%d+%s*1" % (tok, L + 4, other)
                benign = "%s*2+%s*1" % (tok, other)
                for seq in ("2,1", "1,2,1,1"):
                    self.add("tr", "scanseq m=tmmseq nstr=%d idx=%d seq=%s text=%s buf=%s buf2=%s%s" % (
                        nstr, idx, seq, hx("\n".join(rules)), benign, hostile, self.L("YR_MAX_STRING_MATCHES")))

    def config_round_trip(self):
        # every configuration key, boundary values of its type, through the untyped and the typed accessors
        if self.explicit:
            return
        from translators import limits as tl
        import re as _re
        gen = open(os.path.join(core.LEAN, "YaraModel", "Gen", "Limits.lean")).read()
        keys = _re.findall(r'⟨"(YR_CONFIG_\w+)", (\d+), (\d+), (\d+), (\d+), (\d+), (\d+), (\d+)⟩', gen)
        for name, idx, sm, sc_, gm, gc, ts, tg in keys:
            bits = int(ts) or 32
            if bits == 32:
                vals = [0, 1, 2, 2 ** 31 - 1, 2 ** 31, 2 ** 32 - 1, 16384, 10000, 512] + [self.r.randint(0, 2 ** 32 - 1) for _ in range(4)]
            else:
                vals = [0, 1, 4096, 2 ** 31, 2 ** 32 - 1, 2 ** 32, 2 ** 32 + 1, 2 ** 32 + 4096, 2 ** 33, 2 ** 63, 2 ** 64 - 1, 1073741824] + \
                       [self.r.randint(0, 2 ** 64 - 1) for _ in range(4)]
            self.add("cf", "cfg key=%s bits=%d name=%s v=%s" % (idx, bits, name, ",".join(map(str, vals))))
            # the same while another component initialises / finalizes the library between the set and the get
            for nest, op in ((1, 0), (2, 1)):
                self.add("cf", "cfg key=%s bits=%d name=%s nest=%d nestopen=%d v=%s" % (idx, bits, name, nest, op, ",".join(map(str, vals[:8]))))

    def block_timeouts(self):
        # multi-block scans with blocks far smaller than the clock stride: the deadline must be noticed at a block boundary
        if self.explicit:
            return
        rule = hx('rule t { strings: $a = "zzzz" condition: $a }')
        for nb, bs, sl, tmo in ((8, 64, 300, 1), (6, 1000, 400, 1), (5, 4095, 400, 1), (3, 64, 100, 5), (4, 5000, 350, 1)):
            self.add("bt", "scanblocks m=blocktimeout nblocks=%d bsize=%d sleep_ms=%d timeout=%d text=%s" % (nb, bs, sl, tmo, rule))
        # the same over a NON-BLOCKING iterator (ERROR_BLOCK_NOT_READY, the caller waits and resumes): every single wait is shorter
        # than the timeout, the scan as a whole is not — the deadline counts from the scan's first call, not from the last resume
        for nb, bs, sl, tmo in ((8, 64, 300, 1), (6, 1000, 400, 1), (12, 4095, 150, 1), (3, 64, 100, 5), (30, 64, 60, 1), (4, 5000, 350, 1)):
            self.add("bt", "scanblocks m=blocktimeout nb=1 nblocks=%d bsize=%d sleep_ms=%d timeout=%d text=%s" % (nb, bs, sl, tmo, rule))

    def set_timeout(self):
        if self.explicit:
            return
        # deadline stored for a given number of seconds (read back from the scanner): boundaries of the 32-bit product
        base = [0, 1, 2, 3, 4, 5, 9, 10, 59, 60, 3600, 86400, 1000000, 2 ** 31 - 1, 2 ** 31 - 2, 2147483, 2147484, 4294967, 4294968]
        vals = base + [self.r.randint(0, 2 ** 31 - 1) for _ in range(20)] + [self.r.randint(0, 100) for _ in range(10)]
        for i in range(0, len(vals), 8):
            self.add("tm", "settimeout s=%s" % ",".join(map(str, vals[i:i + 8])))

    def loop_stack(self):
        if self.explicit:
            return
        kinds = ["r", "e2", "e3", "a", "d", "t2", "R", "A", "D"]
        shapes = [[k] for k in kinds] + [["s2"], ["s3"], ["r", "d"], ["d", "r"], ["d", "d"], ["a", "d"], ["r", "r", "d"], ["d", "s2"], ["r", "a", "s3"],
                                         ["d", "A"], ["r", "D"], ["e3", "d", "t2"], ["d", "d", "d"], ["a", "e2", "d", "r"]]
        for _ in range(6 if self.tier == "quick" else 60):
            n = self.r.randint(1, self.c["YR_MAX_LOOP_NESTING"])
            sh = [self.r.choice(kinds) for _ in range(n)]
            if self.r.random() < 0.4:
                sh[-1] = self.r.choice(["s2", "s3", "d"])
            shapes.append(sh)
        for sh in shapes:
            nstr = max([int(k[1:]) for k in sh if k[0] == "s"] + [0])

            def cond(levels, depth):
                if not levels:
                    return "$" if any(k[0] == "s" for k in sh) and depth_of_s[0] < depth else "true"
                k = levels[0]
                q = self.r.choice(["any", "any", "1"])
                v = "v%d" % depth
                inner = cond(levels[1:], depth + 1)
                if k[0] == "r":
                    return "for %s %s in (1..3) : ( %s )" % (q, v, inner)
                if k[0] == "R":
                    return "for %s %s in (filesize..3) : ( %s )" % (q, v, inner)      # empty at run time (filesize = 10)
                if k[0] == "e":
                    return "for %s %s in (%s) : ( %s )" % (q, v, ",".join(str(i + 1) for i in range(int(k[1:]))), inner)
                if k[0] == "t":
                    return "for %s %s in (%s) : ( %s )" % (q, v, ",".join('"x%d"' % i for i in range(int(k[1:]))), inner)
                if k[0] == "a":
                    return "for %s %s in tests.integer_array : ( %s )" % (q, v, inner)
                if k[0] == "A":
                    return "for %s %s in tests.empty_struct_array : ( %s )" % (q, v, inner)
                if k[0] == "d":
                    return "for %s k%d, %s in tests.string_dict : ( %s )" % (q, depth, v, inner)
                if k[0] == "D":
                    return "for %s k%d, %s in tests.empty_struct_dict : ( %s )" % (q, depth, v, inner)
                if k[0] == "s":
                    return "for %s of (%s) : ( %s )" % (q, ",".join("$s%d" % i for i in range(int(k[1:]))), inner)
                raise ValueError(k)

            depth_of_s = [next((i for i, k in enumerate(sh) if k[0] == "s"), 99)]
            # `$` (the for..of placeholder) is only legal inside the for..of loop; it is used as innermost body there
            body = cond(sh, 0)
            strings = ("strings: %s " % " ".join('$s%d = "%s"' % (i, "a" * (i + 2)) for i in range(nstr))) if nstr else ""
            rule = 'import "tests"\nrule r { %scondition: %s }\nrule q { condition: r }' % (strings, body)
            shape = ".".join(sh)
            # sweep the stack size through the whole range in which the outcome changes
            for S in range(1, 4 + 2 * len(sh) + max([int(k[1:]) for k in sh if k[0] in "est"] + [0]) + 3):
                self.add("ls", "scan m=loopstack S=%d ss=%d shape=%s show=q text=%s buf=61*10" % (S, S, shape, hx(rule.replace("\\n", "\n"))))

    def matches(self):
        L = self.c["YR_MAX_STRING_MATCHES"]
        toks = ["abcd", "wxyz", "0123", "QRST"]
        lk = self.L("YR_MAX_STRING_MATCHES")
        if L > 64:
            # default build: one limit-hitting A rule, B rules below / at the limit
            for n in self.around(L, far=L + 12345):
                for cb in ("c", self.r.choice("ae")):
                    rules = [("a1", "$a", "abcd", 1), ("b1", "$b", "wxyz", 3), ("b2", "$c", "0123", 5)]
                    segs = [("abcd", n), ("wxyz", 3), ("0123", self.r.choice([4, 5, 6])), ("abcd", 2)]
                    self._match_case(rules, segs, cb, lk, 1)
            rules = [("a1", "$a", "abcd", 1), ("b1", "$b", "abcd", 2), ("b2", "$c", "wxyz", L)]
            self._match_case(rules, [("wxyz", L), ("abcd", 5)], "c", lk, 1)
            return
        for _ in range(400 if self.tier == "quick" else 4000):
            nr = self.r.randint(1, 5)
            rules = []
            for i in range(nr):
                nm = ("a%d" if self.r.random() < 0.5 else "b%d") % i
                # 1-3 strings per rule, so that string indexes and rule indexes differ
                for j in range(self.r.choice([1, 1, 2, 3])):
                    rules.append((nm, "$s%d_%d" % (i, j), self.r.choice(toks[:3]), self.r.choice([0, 1, L - 1, L, L + 1, self.r.randint(0, L + 2)])))
            segs = []
            for _ in range(self.r.randint(1, 6)):
                segs.append((self.r.choice(toks), self.r.choice([0, 1, 2, L - 1, L, L + 1, L + 3, self.r.randint(0, 2 * L)])))
            cb = self.r.choice("cccae")
            if cb != "c" and len({r_[2] for r_ in rules}) < len(rules):
                # an aborting callback sees only the first string that hits the cap; which of several strings with the
                # same text is verified first at one offset is not part of the property: keep the texts distinct
                rules = [(n, sid, toks[i % 4], k) for i, (n, sid, _, k) in enumerate(rules[:4])]
            self._match_case(rules, segs, cb, lk, self.r.choice([1, 1, 2]))
        # directed: rule 0 has two strings (a victim that occurs only AFTER the limit was hit), the overflowing string is the
        # first/second string of rule 1 or 2 (string index != rule index); exactly one warning, the others keep matching
        for noisy_rule in (1, 2):
            for pos in (0, 1):
                for n in (L - 1, L, L + 1, L + 2, 3 * L):
                    rules = [("b0", "$h", "wxyz", 1), ("b0", "$t", "0123", 2)]
                    for r_ in range(1, noisy_rule + 1):
                        strs = [("a%d" % r_, "$p%d_%d" % (r_, j), "QRST" if (r_ != noisy_rule or j != pos) else "abcd", 0) for j in range(2)]
                        rules += strs
                    segs = [("wxyz", 1), ("abcd", n), ("0123", 2), ("QRST", 2), ("wxyz", 1), ("abcd", 1)]
                    self._match_case(rules, segs, "c", lk, self.r.choice([1, 2]))

    def _match_case(self, rules, segs, cb, lk, reps):
        def text(rs):
            # consecutive entries with the same rule name are the strings of one rule
            out, i = [], 0
            while i < len(rs):
                j = i
                while j < len(rs) and rs[j][0] == rs[i][0]:
                    j += 1
                grp = rs[i:j]
                out.append("rule %s { strings: %s condition: %s }" % (grp[0][0], " ".join('%s = "%s"' % (sid, tok) for _, sid, tok, _ in grp),
                                                                   " and ".join("#%s >= %d" % (sid[1:], k) for _, sid, _, k in grp)))
                i = j
            return "\n".join(out)
        brules = [r for r in rules if r[0].startswith("b")]
        segs = [s for s in segs if s[1] > 0] or [("QRST", 1)]
        mmd = "" if lk == "" else " mmd=%d" % self.r.choice([0, 1, 3, 4, 5, 512, 70000])
        line = "scan m=matches rules=%s segs=%s cb=%s reps=%d show=b text=%s buf=%s%s" % (
            ",".join("%s:%s:%s:%d" % r for r in rules), "+".join("%s*%d" % s for s in segs), cb, reps, hx(text(rules)),
            "+".join("%s*%d" % (s[0].encode().hex(), s[1]) for s in segs), lk) + mmd
        if brules:
            line += " text2=%s" % hx(text(brules))
        self.add("mt", line)

    def all(self):
        self.ml(); self.fib(); self.regex(); self.loops(); self.idents(); self.intlits(); self.literal_sequences(); self.includes(); self.file_sequences()
        self.strings_per_rule(); self.stack(); self.set_timeout(); self.loop_stack(); self.fiber_reuse(); self.tmm_reuse(); self.block_timeouts(); self.config_round_trip(); self.matches()
        return self.cases


TIMEOUT_RULES = {
    "nested_loops": ('rule t { condition: for all i in (0..1000000) : ( for all j in (0..1000000) : ( for all k in (0..100000) : '
                     '( for all l in (0..100000) : ( i + j + k + l >= 0 ) ) ) ) }', "61*100"),
    "hash_in_loop": ('import "hash"\nrule t { condition: for all i in (0..100000000) : ( hash.md5(0, filesize) != "x" ) }', "61*4000000"),
    "math_in_loop": ('import "math"\nrule t { condition: for all i in (0..100000000) : ( math.entropy(0, filesize) >= 0.0 ) }', "61*4000000"),
    "regex_dotstar": ('rule t { strings: $a = /a.*b.*c.*d.*e/ condition: $a }', "61*30000000"),
    "hex_jumps": ('rule t { strings: $b = { 61 [0-40] 61 [0-40] 61 [0-40] 62 } condition: $b }', "61*30000000"),
    "regex_alt_plus": ('rule t { strings: $a = /aa(a|b)+c/ condition: $a }', "61*30000000"),
    # many SHORT rules (a handful of instructions each), every one expensive: the deadline has to be noticed across rule boundaries
    "short_rules_entropy": ('import "math"\n' + "\n".join('rule e%d { condition: math.entropy(0, filesize) >= 0.0 }' % i for i in range(600)), "61*6000000"),
    "short_rules_md5": ('import "hash"\n' + "\n".join('rule h%d { condition: hash.md5(%d, filesize - %d) != "x" }' % (i, i, i) for i in range(700)), "61*6000000"),
    "short_rules_mean": ('import "math"\n' + "\n".join('rule m%d { condition: math.mean(%d, filesize) >= 0.0 and math.deviation(0, filesize, 1.0) >= 0.0 }' % (i, i)
                                                        for i in range(400)), "61*6000000"),
    "match_loops": ('rule t { strings: $a = "aaaa" condition: for all i in (1..#a) : ( for all j in (1..#a) : ( @a[i] + @a[j] >= 0 ) ) }', "61*30000000"),
}


def strip_t(line):
    return " ".join(t for t in line.split(" ") if not t.startswith("t="))


def times(line):
    out = {}
    for t in line.split(" "):
        if t.startswith("t=") and ":" in t:
            k, v = t[2:].split(":", 1)
            try:
                out[k] = float(v)
            except ValueError:
                pass
    return out


def run_timeouts(chk, harness, tier, only=None):
    """Each timeout case in its own process, all concurrently, each under a watchdog."""
    secs = 1 if tier == "quick" else 2
    names = [n for n in TIMEOUT_RULES if only is None or n == only]
    procs = []
    for n in names:
        rule, buf = TIMEOUT_RULES[n]
        line = "to_%s scan m=timeout timeout=%d text=%s buf=%s" % (n, secs, hx(rule), buf)
        e = dict(os.environ); e.update(ENV)
        p = subprocess.Popen([harness], stdin=subprocess.PIPE, stdout=subprocess.PIPE, stderr=subprocess.PIPE, text=True, env=e)
        p.stdin.write(line + "\n"); p.stdin.close()
        procs.append((n, line, p, time.time()))
    results = []
    for n, line, p, t0 in procs:
        watchdog = secs + DELTA + 120
        try:
            p.wait(timeout=max(1, watchdog - (time.time() - t0)))
            out = p.stdout.read().strip(); err = p.stderr.read()[-2000:]
            rc = p.returncode
        except subprocess.TimeoutExpired:
            p.kill(); out, err, rc = "", "watchdog: no return %.0f s after a %d s timeout" % (watchdog, secs), -9
        results.append((n, line, out, err, rc, secs))
    return results


def run(tier, replay=None):
    chk = core.Check("C15", tier)
    thash = core.run_translators(["limits"])
    lres = core.lean_check(THM)
    core.proof_coverage(chk, lres, THM, thash)
    b = core.build("asan", harness=["h_limits"])
    bs = core.build("asan", harness=["h_limits"], extra_defs=SMALL_DEFS, tag="c15small")
    harn = {"default": b["h_limits"], "small": bs["h_limits"]}
    found = False

    def consts_of(h):
        out, rc, err = core.run_lines([h], ["c consts"], env=ENV)
        d = {}
        for t in (out[0].split()[1:] if out else []):
            k, v = t.split("=")
            d[k] = int(v)
        return d

    cd, cs = consts_of(harn["default"]), consts_of(harn["small"])
    # translator tie: the constants compiled into the default build are the generated ones
    from translators import limits as tl
    vals, cmps, unparsed = tl.values(core.REPO)
    pairs = [("YR_MAX_STRING_MATCHES", "maxStringMatches"), ("YR_SLOW_STRING_MATCHES", "slowStringMatches"), ("YR_MAX_LOOP_NESTING", "maxLoopNesting"),
             ("YR_MAX_LOOP_VARS", "maxLoopVars"), ("YR_MAX_INCLUDE_DEPTH", "maxIncludeDepth"), ("YR_LEX_BUF_SIZE", "lexBufSize"),
             ("RE_MAX_SPLIT_ID", "reMaxSplitId"), ("RE_MAX_STACK", "reMaxStack"), ("RE_MAX_FIBERS", "reMaxFibers"), ("YR_RE_SCAN_LIMIT", "reScanLimit"),
             ("YR_MAX_ATOM_LENGTH", "maxAtomLength"), ("DEFAULT_STACK_SIZE", "defaultStackSize"), ("DEFAULT_MAX_STRINGS_PER_RULE", "defaultMaxStringsPerRule"),
             ("DEFAULT_MAX_MATCH_DATA", "defaultMaxMatchData"), ("RE_MAX_RANGE", "reMaxRange"),
             ("cfg_stack", "defaultStackSize"), ("cfg_mspr", "defaultMaxStringsPerRule"), ("cfg_mmd", "defaultMaxMatchData")]
    mism = [(c, cd.get(c), vals.get(l)) for c, l in pairs if cd.get(c) != vals.get(l)]
    for k, v in SMALL.items():
        if cs.get(k) != v:
            raise RuntimeError("variant build did not take -D%s=%d (got %s)" % (k, v, cs.get(k)))

    if replay:
        sets = [(replay.get("variant", "default"), [replay["case"]])] if "case" in replay else []
    else:
        sets = [("default", Gen(core.rng("C15/default"), cd, False, tier, "d").all()),
                ("small", Gen(core.rng("C15/small"), cs, True, tier, "s").all())]
    evaluations, nontrivial, hist, samples, validated = 0, set(), {}, [], 0
    LIMIT_TOKENS = ("TOO_MANY_MATCHES", "EXEC_STACK_OVERFLOW", "LOOP_NESTING", "includes_", "TOO_MANY_STRINGS", "identifier_too_long",
                    "INTEGER_OVERFLOW", "TOO_COMPLEX", "TOO_LARGE", "TOO_MANY_RE_FIBERS", "SCAN_TIMEOUT", "tmm=", "000000000", "cfg.")
    for variant, cases in sets:
        if not cases:
            continue
        impl_raw, rc, err = core.run_parallel([harn[variant]], cases, env=ENV, timeout=1500)
        if rc != 0:
            # find the case: the chunk that died has no output line for it
            have = {l.split(" ", 1)[0] for l in impl_raw}
            missing = [c for c in cases if c.split(" ", 1)[0] not in have][:3]
            chk.violation("harness_crash_%s.json" % variant, {"kind": "crash-or-sanitizer-report", "rc": rc, "stderr": err, "engine": "limits",
                                                              "harness": "h_limits", "variant": variant, "case": missing[0] if missing else None,
                                                              "cases_without_output": missing})
            found = True
        impl = [strip_t(l) for l in impl_raw]
        if lres.get("driver_ok"):
            model, mrc, merr = core.run_parallel([core.driver_path(), "limits"], cases, timeout=1500)
            bad = core.diff_outputs([c for c in cases if c.split(" ", 1)[0] in {l.split(" ", 1)[0] for l in impl}] if rc != 0 else cases, impl, model)
            for i, (c, a, m) in enumerate(bad[:10]):
                chk.violation("diff_%s_%d.json" % (variant, i), {"kind": "limit-behaviour-differs-from-model", "engine": "limits", "harness": "h_limits",
                                                                 "variant": variant, "defs": SMALL_DEFS if variant == "small" else "",
                                                                 "case": c, "implementation": a, "model": m,
                                                                 "note": "model = guard functions of Model/Limits.lean (Thm/C15) with the limit of this build"})
                found = True
            validated += len(cases) - len(bad)
            mm = {l.split(" ", 1)[0]: l for l in model}
            for c in cases:
                cid, kind = c.split(" ", 2)[0], c.split(" ", 2)[1]
                o = mm.get(cid, "")
                cls = next((t for t in LIMIT_TOKENS if t in o), "within-limit")
                key = "%s/%s" % (kind if kind != "compile" and kind != "scan" else [t for t in c.split() if t.startswith("m=")][0][2:], cls)
                hist[key] = hist.get(key, 0) + 1
                if cls != "within-limit":
                    nontrivial.add(" ".join(t for t in c.split(" ")[1:] if not t.startswith(("text", "buf=", "inc=", "re="))))
            if cases and len(samples) < 4:
                samples.append({"variant": variant, "case": cases[len(cases) // 2][:400], "implementation": impl[len(cases) // 2] if len(impl) > len(cases) // 2 else None})
        evaluations += len(cases)

    # ---- timeouts (liveness, sampled)
    tcases = []
    if not replay or replay.get("kind") == "timeout":
        res = run_timeouts(chk, harn["default"], tier, only=replay.get("shape") if replay else None)
        for n, line, out, err, rc, secs in res:
            o = " ".join(x for x in strip_t(out).split(" ") if not x.startswith("S.tmm="))   # a pathological string may also hit the match cap
            t = times(out).get("S")
            tcpu = times(out).get("Scpu")
            # lateness (time after the deadline) is scaled by the CPU share the process actually got (the scan never sleeps):
            # on a loaded machine the wall clock of one check stride stretches with the load; a hang is caught by the watchdog
            late = None
            if t is not None:
                share = min(1.0, (tcpu / t)) if (tcpu is not None and t > 0) else 1.0   # fraction of a core this process got
                late = max(0.0, t - secs) * share                                       # lateness in CPU-seconds of the scan
            ok = rc == 0 and o == "to_%s OK S=SCAN_TIMEOUT sane=1" % n and late is not None and late <= DELTA
            early = t is not None and t < secs
            tcases.append({"shape": n, "timeout_s": secs, "returned_after_s": t, "cpu_s": tcpu, "late_cpu_s": late, "outcome": o})
            hist["timeout/" + n] = 1
            if not ok or early:
                chk.violation("timeout_%s.json" % n, {"kind": "timeout", "shape": n, "engine": "limits", "harness": "h_limits", "case": line,
                                                      "timeout_s": secs, "delta_s": DELTA, "returned_after_s": t, "cpu_s": tcpu, "implementation": o,
                                                      "model": "to_%s OK S=SCAN_TIMEOUT sane=1 within timeout+delta, not before the deadline" % n,
                                                      "rc": rc, "stderr": err})
                found = True
            else:
                validated += 1; nontrivial.add("timeout " + n)
            evaluations += 1

    if mism and not found:
        # constants/defaults of the build differ from the generated ones and no behavioural difference was found
        chk.violation("translator_mismatch.json", {"kind": "translator-vs-build", "mismatch": mism,
                                                    "note": "constants compiled into libyara / defaults installed by yr_initialize differ from the ones the translator extracted"}, no_input=True)
        found = True
    chk.cov.update({"evaluations": evaluations, "distinct_nontrivial": len(nontrivial), "traces_validated_against_impl": validated,
                    "rule": "per limit: sizes L-1, L, L+1, >>L plus random sizes/shapes around L in the default build and in a variant built with " + SMALL_DEFS +
                            "; non-trivial = the case reaches or exceeds a limit (error / warning callback / timeout in the predicted outcome)",
                    "outcome_histogram": dict(sorted(hist.items())), "samples": samples, "timeouts": tcases,
                    "build_constants": {"default": cd, "small": cs}, "translator_unparsed": unparsed,
                    "documented_defaults_agree": {"stack_size_16384": cd.get("DEFAULT_STACK_SIZE") == 16384,
                                                  "max_strings_per_rule_10000": cd.get("DEFAULT_MAX_STRINGS_PER_RULE") == 10000,
                                                  "max_match_data_512": cd.get("DEFAULT_MAX_MATCH_DATA") == 512}})
    core.handle_broken_proof(chk, lres, found)
    chk.assumptions += ["timeliness of timeouts is sampled on %d rule shapes with delta %.0f s; the time of one candidate verification / one module call is not modelled" % (len(TIMEOUT_RULES), DELTA),
                        "regex limits are modelled for the fragment literal/any/class/concat/alt/star/plus/range (greedy); fibers at the level of the pool",
                        "the default evaluation-stack size (16384) cannot be exceeded through the parser (bison depth limit), so the stack bound is exercised with configured sizes 0..300",
                        "leak detection is off in this check (a leak of flex buffers on the include-depth/circular error path is reported under C16/C07, not here)"]
    return chk.finish("proof")
