"""Build libyara, the CLI and the harness binaries from /repo's *working tree*.

One generated Makefile per flavour under /verif/.build/<flavour>/; gcc -MMD
dependency files make rebuilds incremental and correct after any edit of /repo.
"""
import os, subprocess, sys, hashlib

VERIF = os.path.dirname(os.path.dirname(os.path.abspath(__file__)))
REPO = os.environ.get("VERIF_REPO", "/repo")
BUILD = os.path.join(VERIF, ".build")

LIB_SOURCES = """
libyara/modules/tests/tests.c libyara/modules/elf/elf.c libyara/modules/math/math.c
libyara/modules/time/time.c libyara/modules/pe/pe.c libyara/modules/pe/pe_utils.c
libyara/modules/console/console.c libyara/modules/string/string.c
libyara/modules/hash/hash.c libyara/modules/dotnet/dotnet.c
libyara/modules/macho/macho.c libyara/modules/dex/dex.c
libyara/modules/pe/authenticode-parser/authenticode.c
libyara/modules/pe/authenticode-parser/certificate.c
libyara/modules/pe/authenticode-parser/helper.c
libyara/modules/pe/authenticode-parser/countersignature.c
libyara/modules/pe/authenticode-parser/structs.c
libyara/grammar.c libyara/ahocorasick.c libyara/arena.c libyara/atoms.c
libyara/base64.c libyara/bitmask.c libyara/compiler.c libyara/endian.c libyara/exec.c
libyara/exefiles.c libyara/filemap.c libyara/hash.c libyara/hex_grammar.c
libyara/hex_lexer.c libyara/lexer.c libyara/libyara.c libyara/mem.c libyara/modules.c
libyara/notebook.c libyara/object.c libyara/parser.c libyara/proc.c libyara/re.c
libyara/re_grammar.c libyara/re_lexer.c libyara/rules.c libyara/scan.c libyara/scanner.c
libyara/simple_str.c libyara/sizedstr.c libyara/stack.c libyara/stopwatch.c
libyara/strutils.c libyara/stream.c libyara/tlshc/tlsh.c libyara/tlshc/tlsh_impl.c
libyara/tlshc/tlsh_util.c libyara/threading.c libyara/proc/linux.c
""".split()

GENERATED = {  # tracked generated file -> (tool, source)
    "libyara/grammar.c": ("bison", "libyara/grammar.y"),
    "libyara/hex_grammar.c": ("bison", "libyara/hex_grammar.y"),
    "libyara/re_grammar.c": ("bison", "libyara/re_grammar.y"),
    "libyara/lexer.c": ("flex", "libyara/lexer.l"),
    "libyara/hex_lexer.c": ("flex", "libyara/hex_lexer.l"),
    "libyara/re_lexer.c": ("flex", "libyara/re_lexer.l"),
}

DEFS = ('-DPACKAGE_NAME=\\"yara\\" -DPACKAGE_VERSION=\\"4.5.2\\" -DPACKAGE_STRING=\\"yara\\ 4.5.2\\" '
        '-DPACKAGE=\\"yara\\" -DVERSION=\\"4.5.2\\" -DYYTEXT_POINTER=1 -DHAVE_STDIO_H=1 -DHAVE_STDLIB_H=1 '
        '-DHAVE_STRING_H=1 -DHAVE_INTTYPES_H=1 -DHAVE_STDINT_H=1 -DHAVE_STRINGS_H=1 -DHAVE_SYS_STAT_H=1 '
        '-DHAVE_SYS_TYPES_H=1 -DHAVE_UNISTD_H=1 -DSTDC_HEADERS=1 -DHAVE_DLFCN_H=1 -DHAVE_LIBM=1 '
        '-DHAVE_MEMMEM=1 -DHAVE_TIMEGM=1 -DHAVE_CLOCK_GETTIME=1 -DHAVE_STDBOOL_H=1 -DHAVE_OPENSSL_EVP_H=1 '
        '-DHAVE_OPENSSL_ASN1_H=1 -DHAVE_OPENSSL_CRYPTO_H=1 -DHAVE_OPENSSL_BIO_H=1 -DHAVE_OPENSSL_PKCS7_H=1 '
        '-DHAVE_OPENSSL_X509_H=1 -DHAVE_OPENSSL_SAFESTACK_H=1 -DHAVE_LIBCRYPTO=1 -DHAVE_SCAN_PROC_IMPL=1 '
        '-DUSE_LINUX_PROC -DDOTNET_MODULE -DHASH_MODULE -DMACHO_MODULE -DDEX_MODULE -DBUCKETS_128=1 '
        '-DCHECKSUM_1B=1 -DYARA_VERIF -D_GNU_SOURCE')

FLAVOURS = {
    "asan": "-O1 -g -fno-omit-frame-pointer -fsanitize=address,undefined -fno-sanitize-recover=all",
    "plain": "-O2 -g",
    "tsan": "-O1 -g -fsanitize=thread",
}

CLI_COMMON = ["cli/args.c", "cli/common.c"]


def _needs_regen(gen, src):
    g, s = os.path.join(REPO, gen), os.path.join(REPO, src)
    if not os.path.exists(g):
        return True
    return os.path.getmtime(s) > os.path.getmtime(g) + 1e-6


def _regen(bdir, gen, tool, src):
    """Mirror make's rule: regenerate when the .y/.l is newer than the tracked .c."""
    gdir = os.path.join(bdir, "gen", os.path.dirname(gen))
    os.makedirs(gdir, exist_ok=True)
    out = os.path.join(bdir, "gen", gen)
    srcp = os.path.join(REPO, src)
    if os.path.exists(out) and os.path.getmtime(out) >= os.path.getmtime(srcp):
        return out
    if tool == "bison":
        cmd = ["bison", "-d", "-Wno-yacc", "-Wno-other", "-o", out, srcp]
    else:
        # the .l files carry `%option outfile="lex.yy.c"`, which overrides -o: take the scanner from stdout instead
        cmd = ["flex", "-t", srcp]
    r = subprocess.run(cmd, stdout=subprocess.PIPE, stderr=subprocess.PIPE, text=True)
    if r.returncode != 0:
        raise BuildError("generator failed: %s\n%s" % (" ".join(cmd), (r.stdout + r.stderr)[-3000:]))
    if tool != "bison":
        with open(out, "w") as f:
            f.write(r.stdout)
    return out


class BuildError(Exception):
    pass


def obj_name(src):
    return src.replace("/", "_").replace(".c", ".o")


def build(flavour="asan", harness=(), cli=False, extra_defs="", tag=None, quiet=True):
    """Build libyara.a (+ harness binaries, + CLI) for a flavour. Returns dict of paths."""
    name = flavour if not tag else "%s-%s" % (flavour, tag)
    bdir = os.path.join(BUILD, name)
    os.makedirs(os.path.join(bdir, "o"), exist_ok=True)
    os.makedirs(os.path.join(bdir, "bin"), exist_ok=True)
    cflags = "%s %s %s -Wno-deprecated-declarations -w" % (FLAVOURS[flavour], DEFS, extra_defs)
    inc = "-I%s/libyara -I%s/libyara/include -I%s" % (REPO, REPO, REPO)
    mk = []
    mk.append("CC=gcc")
    mk.append("CFLAGS=%s" % cflags)
    mk.append("INC=%s" % inc)
    objs = []
    for s in LIB_SOURCES:
        path = os.path.join(REPO, s)
        if s in GENERATED and _needs_regen(s, GENERATED[s][1]):
            path = _regen(bdir, s, *GENERATED[s])
        o = "o/" + obj_name(s)
        objs.append(o)
        mk.append("%s: %s\n\t$(CC) $(CFLAGS) $(INC) -MMD -MP -c -o $@ $<" % (o, path))
    mk.append("libyara.a: %s\n\trm -f $@; ar rcs $@ $^" % " ".join(objs))
    targets = ["libyara.a"]
    libs = "-lcrypto -lm -lpthread"
    hdir = os.path.join(VERIF, "harness")
    for h in harness:
        src = os.path.join(hdir, h + ".c")
        mk.append("bin/%s: %s %s/common.h libyara.a\n\t$(CC) $(CFLAGS) $(INC) -I%s -MMD -MP -o $@ %s libyara.a %s"
                  % (h, src, hdir, hdir, src, libs))
        targets.append("bin/" + h)
    if cli:
        for prog in ("yara", "yarac"):
            srcs = CLI_COMMON + (["cli/threading.c", "cli/yara.c"] if prog == "yara" else ["cli/yarac.c"])
            cobjs = []
            for s in srcs:
                o = "o/cli_%s_%s" % (prog, obj_name(s))
                cobjs.append(o)
                mk.append("%s: %s\n\t$(CC) $(CFLAGS) $(INC) -I%s/cli -MMD -MP -c -o $@ $<" % (o, os.path.join(REPO, s), REPO))
            mk.append("bin/%s: %s libyara.a\n\t$(CC) $(CFLAGS) -o $@ %s libyara.a %s" % (prog, " ".join(cobjs), " ".join(cobjs), libs))
            targets.append("bin/" + prog)
    mk.insert(3, "all: %s" % " ".join(targets))
    mk.append("-include $(wildcard o/*.d) $(wildcard bin/*.d)")
    text = "\n".join(mk) + "\n"
    mkpath = os.path.join(bdir, "Makefile.%s" % hashlib.sha1(text.encode()).hexdigest()[:10])
    with open(mkpath, "w") as f:
        f.write(text)
    r = subprocess.run(["make", "-j%d" % (os.cpu_count() or 4), "-f", mkpath, "all"], cwd=bdir,
                       stdout=subprocess.PIPE, stderr=subprocess.STDOUT, text=True)
    if r.returncode != 0:
        raise BuildError("build of %s failed:\n%s" % (name, r.stdout[-6000:]))
    out = {"dir": bdir, "lib": os.path.join(bdir, "libyara.a")}
    for h in harness:
        out[h] = os.path.join(bdir, "bin", h)
    if cli:
        out["yara"] = os.path.join(bdir, "bin", "yara")
        out["yarac"] = os.path.join(bdir, "bin", "yarac")
    return out


if __name__ == "__main__":
    fl = sys.argv[1] if len(sys.argv) > 1 else "asan"
    print(build(fl, harness=sys.argv[2:], cli=True))
